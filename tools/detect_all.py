#!/usr/bin/env python3
"""Re-run the detection matrix the prescribed way: for every kept seed,
`git -C /repo apply` its patch, run the quick checks against /repo itself,
and undo it with `git -C /repo checkout -- .`.  Writes detection/matrix.json
and detection/matrix.md.  /repo must be clean and nothing else may be using
it while this runs.

usage: tools/detect_all.py [--checks all|listed|target] [seed ids...]
  listed (default): only the checks recorded as detecting in meta.json plus
                    the check of the property the seed targets
"""
import json
import os
import subprocess
import sys
import time

HERE = os.path.dirname(os.path.dirname(os.path.abspath(__file__)))
REPO = '/repo'
ALL = ['C%02d' % i for i in range(1, 21)]


def sh(cmd, cwd=None):
    p = subprocess.run(cmd, shell=True, cwd=cwd, capture_output=True,
                       text=True)
    return p.returncode, p.stdout + p.stderr


def main():
    args = sys.argv[1:]
    mode = 'listed'
    if args[:1] == ['--checks']:
        mode = args[1]
        args = args[2:]
    rc, out = sh('git status --porcelain', REPO)
    if out.strip():
        print('refusing: /repo is not clean:\n' + out)
        return 2
    seeds = args or sorted(os.listdir(os.path.join(HERE, 'seeded')))
    matrix = {}
    for seed in seeds:
        d = os.path.join(HERE, 'seeded', seed)
        meta = json.load(open(os.path.join(d, 'meta.json')))
        if mode == 'all':
            checks = ALL
        elif mode == 'target':
            # the check of the property the seed targets, else the first
            # check recorded as detecting it
            det = meta.get('detected_by', [])
            tgt = meta['breaks_property']
            checks = [tgt] if (tgt in det or not det) else [tgt, det[0]]
        else:
            checks = sorted(set(meta.get('detected_by', [])) |
                            {meta['breaks_property']})
        rc, out = sh('git apply %s' % os.path.join(d, 'patch.diff'), REPO)
        if rc != 0:
            print(seed, 'patch does not apply:', out)
            matrix[seed] = {'error': 'patch does not apply'}
            continue
        row = {}
        try:
            for c in checks:
                t0 = time.time()
                rc, out = sh('./check %s --tier quick --no-evidence' % c, HERE)
                lines = out.splitlines()
                msg = ''
                for i, l in enumerate(lines):
                    if l.startswith('VIOLATION') and i + 1 < len(lines):
                        msg = lines[i + 1].strip()[:240]
                        break
                row[c] = {'exit': rc, 'first_violation': msg,
                          'seconds': round(time.time() - t0, 1)}
        finally:
            sh('git checkout -- .', REPO)
        matrix[seed] = {'breaks': meta['breaks_property'], 'checks': row}
        caught = [c for c, r in row.items() if r['exit'] == 1]
        print(seed, 'breaks', meta['breaks_property'], 'caught by', caught)
    rc, out = sh('git status --porcelain', REPO)
    assert not out.strip(), 'repo left dirty!'
    os.makedirs(os.path.join(HERE, 'detection'), exist_ok=True)
    with open(os.path.join(HERE, 'detection', 'matrix.json'), 'w') as fh:
        json.dump(matrix, fh, indent=1)
    with open(os.path.join(HERE, 'detection', 'matrix.md'), 'w') as fh:
        fh.write('# Seeded changes vs. checks (quick tier, patch applied to '
                 '/repo, then reverted)\n\n')
        fh.write('| seed | breaks | caught by | first report of the target '
                 'check |\n|---|---|---|---|\n')
        for seed, e in matrix.items():
            if 'checks' not in e:
                continue
            caught = [c for c, r in e['checks'].items() if r['exit'] == 1]
            tgt = e['checks'].get(e['breaks'], {})
            fh.write('| %s | %s | %s | %s |\n' % (
                seed, e['breaks'], ' '.join(caught) or '**none**',
                (tgt.get('first_violation') or '').replace('|', '\\|')[:160]))
    return 0


if __name__ == '__main__':
    sys.exit(main())
