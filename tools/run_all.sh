#!/bin/bash
# tools/run_all.sh [quick|thorough] [ids...] - run checks, one summary line each
tier="${1:-quick}"; shift
ids="$@"; [ -z "$ids" ] && ids="C01 C02 C03 C04 C05 C06 C07 C08 C09 C10 C11 C12 C13 C14 C15 C16 C17 C18 C19 C20"
cd "$(dirname "$0")/.."
rc=0
for c in $ids; do
  start=$(date +%s)
  out=$(./check "$c" --tier "$tier" 2>&1); code=$?
  end=$(date +%s)
  echo "$out" | grep -E "VIOLATION|KNOWN-FINDING|ENGINE-ERROR" | head -5
  echo "$(echo "$out" | tail -1) [exit $code, $((end-start))s total]"
  [ $code -ne 0 ] && rc=1
done
exit $rc
