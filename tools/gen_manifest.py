#!/usr/bin/env python3
"""Regenerate MANIFEST.json from the table below and what exists in mc/props."""
import json
import os

HERE = os.path.dirname(os.path.dirname(os.path.abspath(__file__)))

# id: (engine, technique, level text, level note, design section)
CHECKS = {
    'C01': ('E1', 'bounded-exhaustive enumeration (full argument product) on '
            'the real code vs reference model',
            'Every element of the full cartesian product of boundary '
            'alphabets for all 64 method classes (all 2^k bit combinations) '
            'is encoded and decoded by the real library and compared with '
            'the documented normalisation of the input; exhaustive within '
            'the stated alphabets.',
            'Alphabets (mc/alphabets.py) stand for the infinite value '
            'domains; spec table transcribed by hand.', '3/C01'),
}

NOT_BUILT = 'check not built yet in this session (planned, see DESIGN.md)'


def main():
    props = [json.loads(l) for l in open(os.path.join(HERE,
                                                       'properties.jsonl'))]
    checks, na = [], []
    for p in props:
        pid = p['id']
        have = os.path.exists(os.path.join(HERE, 'mc', 'props',
                                           pid.lower() + '.py'))
        if pid in CHECKS and have:
            engine, technique, text, note, ref = CHECKS[pid]
            checks.append({
                'property_id': pid,
                'quick_cmd': './check %s --tier quick' % pid,
                'thorough_cmd': './check %s --tier thorough' % pid,
                'evidence_file': 'evidence/%s.json' % pid,
                'replay_cmd_template': './check %s --replay {path}' % pid,
                'engine': engine,
                'level_claimed': {'category': 'model_checking', 'text': text,
                                  'design_ref': 'DESIGN.md section ' + ref},
                'level_note': note,
                'technique': technique,
            })
        else:
            na.append({'property_id': pid, 'reason': NOT_BUILT})
    manifest = {
        'version': 1,
        'setup_cmd': 'true',
        'hooks': {
            'guard': 'PAMQP_VERIF',
            'enable': 'none needed: all observation points are public API; '
                      './check exports PAMQP_VERIF=1 for uniformity',
            'baseline_off_cmd': 'cd /repo && /venv/bin/python -m pytest -ra '
                                '-q -p no:cacheprovider --timeout=900 '
                                '--continue-on-collection-errors',
            'source_commits': [],
            'add_only': True,
        },
        'engines': [
            {'name': 'E1', 'path': 'mc/corpus.py, mc/alphabets.py',
             'kind_free_text': 'product / deviation-bounded enumerator over '
             'finite alphabets, on the real code, against mc/refcodec.py'},
            {'name': 'E2', 'path': 'mc/explore.py',
             'kind_free_text': 'explicit-state BFS over real API events with '
             'canonical state hashing'},
            {'name': 'E3', 'path': 'mc/sched.py',
             'kind_free_text': 'preemption-bounded exhaustive thread schedule '
             'explorer (sys.settrace + batons)'},
            {'name': 'E4', 'path': 'mc/faults.py',
             'kind_free_text': 'cut / corruption / field-rewrite enumerator '
             'driven by the reference encoder field map'},
            {'name': 'E5', 'path': 'mc/steps.py',
             'kind_free_text': 'deterministic line-step budget monitor'},
        ],
        'checks': checks,
        'not_applicable': na,
        'notes': 'All checks run on /repo\'s working tree via ./check; '
                 'evidence is rewritten on every run. See DESIGN.md.',
    }
    for e in manifest['engines']:
        e['serves_properties'] = [c['property_id'] for c in checks
                                  if c['engine'] == e['name']]
    with open(os.path.join(HERE, 'MANIFEST.json'), 'w') as fh:
        json.dump(manifest, fh, indent=1)
        fh.write('\n')
    print('checks:', [c['property_id'] for c in checks])


if __name__ == '__main__':
    main()
