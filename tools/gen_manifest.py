#!/usr/bin/env python3
"""Regenerate MANIFEST.json from the table below and what exists in mc/props."""
import json
import os

HERE = os.path.dirname(os.path.dirname(os.path.abspath(__file__)))

# id: (engine, technique, level text, level note, design section)
MC = ('Bounded-exhaustive model checking on the real code: every element of '
      'an explicitly bounded space is executed by the implementation and '
      'compared with an independent reference model (mc/refcodec.py, '
      'mc/spec_table.py); no sampling decides the verdict. ')
TB = ('Trusted: the hand-written reference codec / spec table, the finite '
      'alphabets standing for infinite value domains, CPython. ')

CHECKS = {
    'C01': ('E1', 'explicit-state enumeration: full argument product per '
            'method class, executed on the implementation, vs reference model',
            MC + 'C01: full cartesian product of boundary alphabets for all '
            '64 method classes (all 2^k bit combinations) x channels, plus '
            'dense interior sweeps (every octet/short/channel value, every '
            'string length 0..4200 at every UTF-8 alignment, every table / '
            'array entry count, every field-name length in 1-4 byte characters, '
            'every nesting depth 1..128 (200), frames above 128 KiB), also '
            'right after refused operations and operations failing in the '
            'middle of a container; round-trip compared with the documented '
            'normalisation.',
            TB, '3/C01'),
    'C02': ('E1', 'explicit-state enumeration: all 8192 presence subsets x '
            'alternative values, on the implementation, vs reference model',
            MC + 'C02: all 2^13 presence subsets, every alternative value of '
            'every property against subsets of the others, pairs, the empty-'
            'string spelling, body size x channel; every body size 0..69999 '
            'and 2^k+-64, every channel, every priority and string length; '
            'header tables keyed by names of <= 128 characters but 130..255 '
            'bytes.',
            TB, '3/C02'),
    'C03': ('E1', 'explicit-state enumeration of field values: boundary '
            'scalars x positions, all tree shapes <= N nodes, all L/D chains',
            MC + 'C03: every boundary scalar at three positions, every '
            'ordered tree shape up to 5 (7) nodes with every list/dict '
            'labelling, every chain up to depth 10 (14), depth 32; '
            'homogeneous arrays/tables of 15 element kinds for every count '
            '0..69 and selected counts to 400 (2000) with one foreign '
            'element; all arrays <= 3 (4) over 31 tag-letter-bearing values; '
            'every nesting depth 1..130 (200) in four list/dict patterns '
            '(acceptance required to 32, round trip required for whatever is '
            'accepted beyond); every Unicode code point alone / first / last in '
            'strings and field names.',
            TB, '3/C03'),
    'C04': ('E1', 'explicit-state enumeration (C01+C02+C03+C18 spaces); '
            'byte-for-byte comparison with an independent reference encoder',
            MC + 'C04: every output byte of every encoder entry point over '
            'the union of the C01, C02, C03 spaces and bodies/heartbeat/'
            'protocol header equals the reference encoder; one object of '
            'every class re-encoded after every step of an assign / mutate-'
            'in-place script (constructed and decoded objects) incl. in-place '
            'changes of byte-array leaves and poison / repair of one '
            'unencodable leaf (five kinds) at three depths.', TB,
            '3/C04'),
    'C05': ('E1', 'reference-generator enumeration of grammar-valid frames '
            '(all tags, all 8/16-bit payloads, liberties) decoded by both '
            'decoders', MC + 'C05: wire frames the library never emits, '
            'generated from the grammar, decoded by the reference decoder '
            'and by the library, results compared; tag L with the top bit '
            'set is held to one reading at every position and array length '
            '(differential oracle); every Unicode code point in long strings, '
            'field names and string arguments; tag-fill mixed arrays.', TB,
            '3/C05'),
    'C06': ('E2', 'explicit-state exploration of the receive loop: all frame '
            'sequences <= n over K_seq x all (consumed, received) states; '
            'envelope invariant over all E4 inputs',
            MC + 'C06: every (c, r) state of every frame sequence up to '
            'length 3 (4) over a 15-frame adversarial set, every corpus '
            'frame x 9 fixed trailers and 7-44 trailers derived from the frame '
            'itself (the frames that may follow it, well-formed / malformed / '
            'cut), every K_seq frame and pair as bytearray / memoryview / '
            'slices of larger buffers, envelope clause on every successfully '
            'decoded input of the fault spaces (incl. relation-aware length '
            'rewrites of 6-17 KiB frames).', TB +
            'Purity of unmarshal (C16) collapses chunkings to (c, r).',
            '3/C06'),
    'C07': ('E4', 'exhaustive crash-point enumeration: every valid corpus '
            'frame x every cut point', MC + 'C07: every strict prefix of '
            'every corpus frame (1.7 M distinct prefixes in quick) must raise '
            'UnmarshalingException, also with debug logging switched on.', TB + 'Frames above 4096 bytes are cut '
            'at a structural subset of offsets.', '3/C07'),
    'C08': ('E4+E5', 'exhaustive fault enumeration (corruptions, every length '
            'rewrite, small strings in envelopes) under a deterministic step '
            'budget monitor', MC + 'C08: every input of the E4 fault spaces '
            'is decoded under a step monitor (calls + jumps inside pamqp); '
            'budget 256 + 16*len; tracemalloc peak <= 256 KiB + 64*len on '
            'the first call, <= 1 MiB retained after the result is dropped; '
            'nested length lies per level, n sibling containers whose inner '
            'length reaches to the parent end (n up to 1024 / 2048), large '
            'dense values, relation-aware length rewrites of 6-17 KiB frames.',
            TB + 'Work measured in interpreter-level steps, not C-level '
            'work.', '3/C08'),
    'C09': ('E4', 'exhaustive fault enumeration: single-byte corruptions, '
            'field rewrites, truncations, small strings in envelopes, header '
            'shapes', MC + 'C09: every input of the E4 fault spaces either '
            'decodes or raises UnmarshalingException; truncations, short '
            'strings and header shapes again with debug logging on, '
            'representative frames and truncations with warnings raised as '
            'errors.', TB,
            '3/C09'),
    'C10': ('E1', 'explicit-state enumeration: every public encoder and '
            'every argument of every class x adversarial value alphabets; '
            'oracle raise-or-round-trip', MC + 'C10: every encoder entry '
            'point x adversarial values (out-of-range, wrong type, non-'
            'finite, oversize, falsy non-dicts, non-boolean bits, buffer '
            'objects with items wider than a byte or several dimensions, all '
            '2048 lone surrogates): the call '
            'raises or its output decodes to the normalised input and leaves '
            'every other argument unchanged; dense sweeps: every integer '
            '-66000..66000 and +-300 around 2^31/32/63/64 through 8 integer '
            'encoders, 9x62x6x6 timestamps, Decimal coefficients -1100..1100 '
            'x exponents, floats m*2^k for every k, every string / key / '
            'array length 0..299.', TB, '3/C10'),
    'C11': ('E2', 'explicit-state BFS over the legacy-switch state machine '
            '(behavioural state hash) + full integer observation in every '
            'state, vs a 2-state model and the reference ladder',
            MC + 'C11: BFS over toggle events closes at 2 behavioural '
            'states; all 6^4 (6^6) sequences over toggles + refused encode + '
            'failed decode + encode, without deduplication, under three '
            'observation modes (same objects re-encoded after each event); '
            'in each state all integers of [-70000, 70000] and every ladder '
            'boundary neighbourhood at four positions against the reference '
            'ladder; integers of thousands of digits; int subclasses '
            '(IntEnum) with fresh classes per sequence of <= 4 switch '
            'settings; one continuous history with N never-seen integers '
            'between probe and toggle for every N of 0..599 (1099).', TB,
            '3/C11'),
    'C12': ('E1', 'explicit-state enumeration: all insertion-order '
            'permutations of colliding keys x nested permutations x '
            'positions; repeated encoding with deep before/after snapshots',
            MC + 'C12: 720 (4320) insertion orders at 4 positions equal the '
            'sorted reference; every corpus frame/value encoded twice with '
            'identity-and-content snapshots; equal-but-distinct twins '
            '(Decimal exponents, 1/True/1.0, 0.0/-0.0, DST fold twins); equal '
            'unordered collections filled in different orders (sets, dict '
            'views, mapping types) encode equally if accepted.', TB,
            '3/C12'),
    'C13': ('E1', 'explicit-state enumeration: every constrained argument '
            'site x all Unicode code points / lengths / fixed-field values x '
            '3 ways, vs an independent predicate', MC + 'C13: 41 sites from '
            'the spec table; every code point 0..0x10FFFF in four positions '
            '(2 sites quick, 20 thorough); constructor, setattr+marshal, '
            'decode; object-reuse histories: every sequence of length 2-3 of '
            'freshly built valid / broken values on one long-lived object x '
            '3 encode patterns.', TB + 'None and identity-only differences are left '
            'out.', '3/C13'),
    'C14': ('E1', 'complete enumeration of a finite catalogue against a '
            'transcribed specification table', MC + 'C14: every fact of all '
            '64 classes and Basic.Properties (1600+ facts) compared with the '
            'spec table, statically and behaviourally, and again after '
            'applications defined subclasses of every class and unknown '
            'method ids were decoded.', TB, '3/C14'),
    'C15': ('E1', 'configuration enumeration: one fresh process per TZ '
            'setting x instants incl. every DST transition x input forms; '
            'per-child reference check + identical result digests',
            MC + 'C15: 14 TZ settings (thorough: the whole tz database) x '
            '~26 k instants x ~12 input forms (both folds of every wall time '
            'consecutively, through four timestamp paths; 11-field struct_times, '
            'environment-built struct_times, a tzinfo without offset, '
            'datetime subclasses); bytes == >Q of '
            'the absolute '
            'instant, decoded value UTC-aware; SHA-256 of the whole result '
            'table identical across children.', TB, '3/C15'),
    'C16': ('E2+E3', 'explicit-state BFS over library-state snapshots + all '
            'event histories <= depth (fresh import each) vs fresh-'
            'interpreter baselines; preemption-bounded exhaustive thread '
            'schedule exploration (line-level scheduling points)',
            MC + 'C16: BFS over 69 API events (incl. environment changes: '
            'decimal context, debug logging, warnings as errors; mid-'
            'container failures; poison then repair of kept objects; deep '
            'copies; base classes and application subclasses first), each '
            'history in a forked child of a pristine process, '
            'with a deep library-state '
            'hash closes at 2 states; all histories of depth <= 2, all '
            'a;b;a, all depth-3 over 16 core events (thorough: all depth 3) '
            'replayed from a fresh import and compared per event with a '
            'fresh-interpreter baseline, aliasing oracle on returned '
            'objects (a library reference to a returned object counts only '
            'with an observable consequence); same-thread re-entrancy (8 '
            'outer x 8 inner calls nested at every point where the encoder '
            'runs application code); 25 thread harnesses incl. refused-vs-'
            'served calls and cache pressure, library locks made scheduler-'
            'aware, a post-probe after every schedule, every '
            'schedule with <= 2 (3) '
            'preemptions at source-line granularity from a warm library and '
            '<= 1 from a freshly imported one, results equal the '
            'sequential ones; witness harness proves real interleaving.',
            TB + 'Preemption inside a source line and C-level races are not '
            'modelled.', '3/C16'),
    'C17': ('E1', 'complete enumeration of reply codes and constants against '
            'a transcribed table', MC + 'C17: all 18 reply codes and all '
            'protocol constants, statically and behaviourally.', TB,
            '3/C17'),
    'C18': ('E1', 'explicit-state enumeration of bodies (all 1-2 byte '
            'strings, all strings <= 6/7 over 9 symbols), channels, 256^3 '
            'version triples', MC + 'C18: bodies, heartbeats and protocol '
            'headers round-trip and equal the reference bytes.', TB,
            '3/C18'),
    'C19': ('E1', 'explicit-state enumeration: all classes x <=2-deviation '
            'vectors (full products) x before/after round trip; mapping '
            'protocol vs spec-table names', MC + 'C19: iteration, dict(), '
            'len, membership, item access, attributes(), amqp_type agree '
            'with the spec-table name list and the current attribute '
            'values; foreign names include every key and string found among '
            'the object\'s own values; 8 orders of first use on a freshly '
            'imported library.', TB, '3/C19'),
    'C20': ('E4', 'exhaustive enumeration of header byte patterns + client '
            'procedure over every library-encoded corpus frame',
            MC + 'C20: frame_parts on every short buffer and 5^7 + 7x256x5 '
            'header patterns x trailers; read-7/peek/read-size+1/decode on '
            'every encoded corpus frame.', TB, '3/C20'),
}

NOT_BUILT = 'check not built yet in this session (planned, see DESIGN.md)'


def main():
    props = [json.loads(l) for l in open(os.path.join(HERE,
                                                       'properties.jsonl'))]
    checks, na = [], []
    for p in props:
        pid = p['id']
        have = os.path.exists(os.path.join(HERE, 'mc', 'props',
                                           pid.lower() + '.py'))
        if pid in CHECKS and have:
            engine, technique, text, note, ref = CHECKS[pid]
            checks.append({
                'property_id': pid,
                'quick_cmd': './check %s --tier quick' % pid,
                'thorough_cmd': './check %s --tier thorough' % pid,
                'evidence_file': 'evidence/%s.json' % pid,
                'replay_cmd_template': './check %s --replay {path}' % pid,
                'engine': engine,
                'level_claimed': {'category': 'model_checking', 'text': text,
                                  'design_ref': 'DESIGN.md section ' + ref},
                'level_note': note,
                'technique': technique,
            })
        else:
            na.append({'property_id': pid, 'reason': NOT_BUILT})
    manifest = {
        'version': 1,
        'setup_cmd': 'true',
        'hooks': {
            'guard': 'PAMQP_VERIF',
            'enable': 'none needed: all observation points are public API; '
                      './check exports PAMQP_VERIF=1 for uniformity',
            'baseline_off_cmd': 'cd /repo && /venv/bin/python -m pytest -ra '
                                '-q -p no:cacheprovider --timeout=900 '
                                '--continue-on-collection-errors',
            'source_commits': [],
            'add_only': True,
        },
        'engines': [
            {'name': 'E1', 'path': 'mc/corpus.py, mc/alphabets.py',
             'kind_free_text': 'product / deviation-bounded enumerator over '
             'finite alphabets, on the real code, against mc/refcodec.py'},
            {'name': 'E2', 'path': 'mc/libstate.py, mc/c16events.py, '
             'mc/props/c06.py, mc/props/c11.py',
             'kind_free_text': 'explicit-state BFS over real API events with '
             'canonical state hashing'},
            {'name': 'E3', 'path': 'mc/sched.py',
             'kind_free_text': 'preemption-bounded exhaustive thread schedule '
             'explorer (sys.settrace + batons)'},
            {'name': 'E4', 'path': 'mc/faults.py',
             'kind_free_text': 'cut / corruption / field-rewrite enumerator '
             'driven by the reference encoder field map'},
            {'name': 'E5', 'path': 'mc/steps.py',
             'kind_free_text': 'deterministic step budget monitor '
             '(sys.monitoring: calls + jumps inside pamqp) with tracemalloc '
             'peak / retained-memory bounds'},
        ],
        'checks': checks,
        'not_applicable': na,
        'notes': 'All checks run on /repo\'s working tree via ./check; '
                 'evidence is rewritten on every run. When pamqp/*.py holds '
                 'an assert statement or uses __debug__, every check is run a '
                 'second time in an interpreter started with -O. See '
                 'DESIGN.md.',
    }
    for e in manifest['engines']:
        e['serves_properties'] = [c['property_id'] for c in checks
                                  if c['engine'] == e['name']]
    with open(os.path.join(HERE, 'MANIFEST.json'), 'w') as fh:
        json.dump(manifest, fh, indent=1)
        fh.write('\n')
    print('checks:', [c['property_id'] for c in checks])


if __name__ == '__main__':
    main()
