#!/usr/bin/env python3
"""Print a markdown table of what the evidence files say each check covered.
usage: tools/summarize_evidence.py [evidence-dir]"""
import json
import os
import sys

HERE = os.path.dirname(os.path.dirname(os.path.abspath(__file__)))


def main():
    d = sys.argv[1] if len(sys.argv) > 1 else os.path.join(HERE, 'evidence')
    print('| check | tier | states | transitions | validated vs model | '
          'non-trivial | outcomes | exhaustive | wall s |')
    print('|---|---|---|---|---|---|---|---|---|')
    for name in sorted(os.listdir(d)):
        if not name.endswith('.json'):
            continue
        e = json.load(open(os.path.join(d, name)))
        c = e['coverage']
        print('| %s | %s | %s | %s | %s | %s | %s | %s | %.1f |' % (
            e['property_id'], e['tier'], f"{c['states']:,}",
            f"{c['transitions']:,}",
            f"{c['traces_validated_against_impl']:,}",
            f"{c['distinct_nontrivial']:,}", c['distinct_outcomes'],
            'yes' if c['exhaustive'] else 'capped', e['wall_s']))


if __name__ == '__main__':
    main()
