#!/usr/bin/env python3
"""Evaluate a candidate property-breaking change held in a scratch worktree.

usage: tools/eval_seed.py <worktree> <seed-id> <property> [--tier quick] [--checks C01,C04]
 1. git diff of the worktree -> patch
 2. the unedited test suite must pass with the change
 3. demo.py must fail with the change and pass without it
 4. every check (or the listed ones) is run with PAMQP_REPO=<worktree>
 5. with --keep the artefacts are stored in /verif/seeded/<seed-id>/
"""
import argparse
import json
import os
import shutil
import subprocess
import sys
import time

HERE = os.path.dirname(os.path.dirname(os.path.abspath(__file__)))
ALL = ['C%02d' % i for i in range(1, 21)]


def sh(cmd, cwd=None, env=None, timeout=3600):
    e = dict(os.environ)
    e.update(env or {})
    p = subprocess.run(cmd, shell=True, cwd=cwd, env=e, capture_output=True,
                       text=True, timeout=timeout)
    return p.returncode, p.stdout + p.stderr


def main():
    ap = argparse.ArgumentParser()
    ap.add_argument('worktree')
    ap.add_argument('seed_id')
    ap.add_argument('property')
    ap.add_argument('--tier', default='quick')
    ap.add_argument('--checks', default='')
    ap.add_argument('--keep', action='store_true')
    ap.add_argument('--needs', default='')
    ap.add_argument('--skip-validate', action='store_true')
    a = ap.parse_args()
    wt = os.path.abspath(a.worktree)
    env = {'PYTHONPATH': wt}
    rc, patch = sh('git diff -- pamqp', cwd=wt)
    if not patch.strip():
        print('no change in', wt)
        return 2
    report = {'seed': a.seed_id, 'property': a.property, 'needs': a.needs,
              'patch_lines': len(patch.splitlines())}
    if not a.skip_validate:
        rc, out = sh('/venv/bin/python -m pytest -q -p no:cacheprovider tests',
                     cwd=wt, env=env)
        report['tests_with_change'] = out.strip().splitlines()[-1]
        report['tests_pass'] = rc == 0
        rc1, out1 = sh('/venv/bin/python demo.py', cwd=wt, env=env)
        # (git stash is shared by all worktrees of a repository: use a patch)
        tmp = os.path.join(wt, '.eval_seed.patch')
        with open(tmp, 'w') as fh:
            fh.write(patch)
        rcr, outr = sh('git apply -R .eval_seed.patch', cwd=wt)
        assert rcr == 0, outr
        try:
            rc0, out0 = sh('/venv/bin/python demo.py', cwd=wt, env=env)
        finally:
            rca, outa = sh('git apply .eval_seed.patch', cwd=wt)
            assert rca == 0, outa
            os.unlink(tmp)
        report['demo_with_change_exit'] = rc1
        report['demo_without_change_exit'] = rc0
        report['demo_ok'] = rc1 != 0 and rc0 == 0
        print('tests:', report['tests_with_change'], '| demo with/without:',
              rc1, rc0)
    checks = [c for c in a.checks.split(',') if c] or ALL
    detected, silent, broken = [], [], []
    for c in checks:
        t0 = time.time()
        rc, out = sh('./check %s --tier %s --no-evidence' % (c, a.tier),
                     cwd=HERE, env={'PAMQP_REPO': wt})
        first = next((l for l in out.splitlines()
                      if l.startswith('VIOLATION')), '')
        msg = ''
        lines = out.splitlines()
        for i, l in enumerate(lines):
            if l.startswith('VIOLATION') and i + 1 < len(lines):
                msg = lines[i + 1].strip()[:300]
                break
        if rc == 1 and first:
            detected.append(c)
            print('  %s DETECTS (%.0fs): %s' % (c, time.time() - t0, msg))
        elif rc == 0:
            silent.append(c)
        else:
            broken.append(c)
            print('  %s ENGINE-ERROR rc=%d: %s' % (c, rc, out[-400:]))
        report.setdefault('first_violation', {})[c] = msg
    report.update(detected_by=detected, silent=silent, engine_errors=broken,
                  tier=a.tier)
    print('detected by:', detected, '| silent:', len(silent), '| broken:',
          broken)
    if a.keep:
        dest = os.path.join(HERE, 'seeded', a.seed_id)
        os.makedirs(dest, exist_ok=True)
        with open(os.path.join(dest, 'patch.diff'), 'w') as fh:
            fh.write(patch)
        if os.path.exists(os.path.join(wt, 'demo.py')):
            shutil.copy(os.path.join(wt, 'demo.py'),
                        os.path.join(dest, 'demo.py'))
        meta = {
            'id': a.seed_id, 'breaks_property': a.property,
            'needs_to_manifest': a.needs,
            'author': 'independent sub-agent given only the property text '
                      'and a scratch worktree',
            'what_was_run': [
                'unedited test suite with the change: %s' %
                report.get('tests_with_change'),
                'demo.py with change -> exit %s, without -> exit %s' % (
                    report.get('demo_with_change_exit'),
                    report.get('demo_without_change_exit')),
                'every ./check <id> --tier %s with PAMQP_REPO=<worktree>' %
                a.tier],
            'detected_by': detected,
            'first_violation': {c: report['first_violation'][c]
                                for c in detected},
        }
        with open(os.path.join(dest, 'meta.json'), 'w') as fh:
            json.dump(meta, fh, indent=1)
            fh.write('\n')
        print('kept in', dest)
    return 0


if __name__ == '__main__':
    sys.exit(main())
