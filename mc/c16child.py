"""Fresh-interpreter baseline for C16: run ONE event alone and print its
canonical result.  argv: <event index> <legacy 0|1>"""
import json
import logging
import sys


def main():
    logging.disable(logging.CRITICAL)
    idx, legacy = int(sys.argv[1]), sys.argv[2] == '1'
    from mc import c16events, lib
    p = lib.pamqp()
    if legacy:
        p.encode.support_deprecated_rabbitmq(True)
    name, ev = c16events.EVENTS[idx]
    try:
        res = ev(p, lambda o: None)
    except Exception as exc:  # noqa
        res = ['event raised', type(exc).__name__, str(exc)[:200]]
    print(json.dumps({'event': name, 'result': res}))


if __name__ == '__main__':
    main()
