"""Canonical forms, documented normalisation, and a JSON codec for values."""
import array
import calendar
import datetime
import decimal
import math
import struct
import time

UTC = datetime.timezone.utc
EPOCH = datetime.datetime(1970, 1, 1, tzinfo=UTC)


def f32(x):
    """Nearest IEEE single (as a Python float); OverflowError if too large."""
    return struct.unpack('>f', struct.pack('>f', x))[0]


def norm_ts(v):
    if isinstance(v, time.struct_time):
        return EPOCH + datetime.timedelta(seconds=calendar.timegm(v))
    if v.tzinfo is None or v.tzinfo.utcoffset(v) is None:
        v = v.replace(tzinfo=UTC)
    delta = v - EPOCH
    secs = delta.days * 86400 + delta.seconds
    if delta.days < 0 and delta.microseconds:
        secs += 1
    return EPOCH + datetime.timedelta(seconds=secs)


def norm(v):
    """What the documented normalisation turns an encodable value into."""
    if isinstance(v, bool) or v is None or isinstance(v, (int, str)):
        return v
    if isinstance(v, float):
        return f32(v)
    if isinstance(v, decimal.Decimal):
        return v
    if isinstance(v, (datetime.datetime, time.struct_time)):
        return norm_ts(v)
    if isinstance(v, bytearray):
        return bytearray(v)
    if isinstance(v, bytes):
        return v
    if isinstance(v, list):
        return [norm(x) for x in v]
    if isinstance(v, dict):
        return {k[:128]: norm(x) for k, x in v.items()}
    return v


def canon(v):
    """Nested tuples tagged with the exact Python type; compare with ==."""
    t = type(v)
    if t is bool:
        return ('bool', v)
    if t is int:
        return ('int', v)
    if v is None:
        return ('none',)
    if t is str:
        return ('str', v)
    if t is float:
        if math.isnan(v):
            return ('float', 'nan')
        return ('float', v)
    if t is decimal.Decimal:
        if v.is_nan():
            return ('decimal', 'nan')
        return ('decimal', v)
    if t is bytes:
        return ('bytes', v)
    if t is bytearray:
        return ('bytearray', bytes(v))
    if t is datetime.datetime:
        if v.tzinfo is None:
            return ('datetime-naive', v)
        off = v.utcoffset()
        delta = v - EPOCH
        return ('datetime', delta.days, delta.seconds, delta.microseconds,
                off == datetime.timedelta(0))
    if t is list:
        return ('list', tuple(canon(x) for x in v))
    if t is tuple:
        return ('tuple', tuple(canon(x) for x in v))
    if t is dict:
        items = [(canon(k), canon(x)) for k, x in v.items()]
        try:
            items.sort()
        except TypeError:
            items.sort(key=repr)
        return ('dict', tuple(items))
    if isinstance(v, time.struct_time):
        return ('struct_time', tuple(v))
    return ('other', t.__module__ + '.' + t.__qualname__, repr(v))


def tojson(v):
    """JSON-able, reversible description of a value (for replays/samples)."""
    t = type(v)
    if v is None or t in (bool, int, str):
        return v
    if t is float:
        return {'$f': repr(v)}
    if t is decimal.Decimal:
        return {'$D': str(v)}
    if t is bytes:
        return {'$b': v.hex()}
    if t is bytearray:
        return {'$x': bytes(v).hex()}
    if t is datetime.datetime:
        return {'$T': v.isoformat()}
    if isinstance(v, time.struct_time):
        return {'$st': list(v)}
    if t is list:
        return [tojson(x) for x in v]
    if t is tuple:
        return {'$t': [tojson(x) for x in v]}
    if t is dict:
        return {'$F': [[tojson(k), tojson(x)] for k, x in v.items()]}
    if t is memoryview:
        base = v.obj
        return {'$buf': 'memoryview', 'format': v.format,
                'of': type(base).__name__, 'hex': v.tobytes().hex(),
                'shape': list(v.shape) if v.ndim > 1 else None}
    if t is array.array:
        return {'$buf': 'array', 'format': v.typecode,
                'hex': v.tobytes().hex()}
    return {'$repr': repr(v)}


def fromjson(j):
    if j is None or isinstance(j, (bool, int, str)):
        return j
    if isinstance(j, list):
        return [fromjson(x) for x in j]
    if '$buf' in j:
        raw = bytes.fromhex(j['hex'])
        if j['$buf'] == 'array':
            return array.array(j['format'], raw)
        if j.get('of') == 'array':
            return memoryview(array.array(j['format'], raw))
        base = bytearray(raw) if j.get('of') == 'bytearray' else raw
        if j.get('shape'):
            return memoryview(base).cast(j['format'], shape=j['shape'])
        return memoryview(base).cast(j['format']) \
            if j['format'] != 'B' else memoryview(base)
    if '$f' in j:
        return float(j['$f'])
    if '$D' in j:
        return decimal.Decimal(j['$D'])
    if '$b' in j:
        return bytes.fromhex(j['$b'])
    if '$x' in j:
        return bytearray(bytes.fromhex(j['$x']))
    if '$T' in j:
        return datetime.datetime.fromisoformat(j['$T'])
    if '$st' in j:
        return time.struct_time(tuple(j['$st']))
    if '$t' in j:
        return tuple(fromjson(x) for x in j['$t'])
    if '$F' in j:
        return {fromjson(k): fromjson(x) for k, x in j['$F']}
    raise ValueError('not reversible: {!r}'.format(j))


def short(v, limit=160):
    """Short printable form for messages (free of object addresses)."""
    if isinstance(v, memoryview):
        s = 'memoryview(format=%r%s, %r)' % (
            v.format, ', shape=%r' % (list(v.shape),) if v.ndim > 1 else '',
            v.tobytes())
    else:
        s = repr(v)
    return s if len(s) <= limit else s[:limit - 12] + '...(%d)' % len(s)
