"""Child process of C15: runs under one TZ setting, prints a JSON report."""
import calendar
import datetime
import hashlib
import json
import struct
import os
import sys
import time
import zoneinfo

UTC = datetime.timezone.utc
EPOCH = datetime.datetime(1970, 1, 1, tzinfo=UTC)
FIXED = [datetime.timezone(datetime.timedelta(hours=5, minutes=30)),
         datetime.timezone(datetime.timedelta(hours=14)),
         datetime.timezone(datetime.timedelta(hours=-11))]
# offsets with a sub-minute and a sub-second part (local mean time): the
# instant is wall time minus the WHOLE offset, microseconds included
SUBSECOND = [datetime.timezone(datetime.timedelta(seconds=3217,
                                                  microseconds=200000)),
             datetime.timezone(-datetime.timedelta(seconds=17761,
                                                   microseconds=440000)),
             datetime.timezone(datetime.timedelta(seconds=30)),
             datetime.timezone(datetime.timedelta(microseconds=999999))]
ZONE_FIELDS = [('CEST', 7200), ('EST', -18000), ('UTC', 0), ('IST', 19800),
               ('LHDT', 39600), (None, None)]
DST_ZONES = ['America/New_York', 'Europe/London', 'Australia/Lord_Howe',
             'Australia/Sydney', 'America/Sao_Paulo', 'Africa/Casablanca']


class Floating(datetime.tzinfo):
    """A tzinfo that does not know its offset: by Python's definition a
    datetime carrying it is naive."""

    def utcoffset(self, dt):
        return None

    def dst(self, dt):
        return None

    def tzname(self, dt):
        return 'floating'

    def __repr__(self):
        return 'Floating()'


class Stamp(datetime.datetime):
    """An application subclass of datetime."""


FLOATING = Floating()


def forms(t, zones):
    """(label, input value, absolute instant) for instant t."""
    aware = EPOCH + datetime.timedelta(seconds=t)
    naive = aware.replace(tzinfo=None)
    yield 'naive', naive, t
    yield 'aware-utc', aware, t
    yield 'naive-floating-tzinfo', naive.replace(tzinfo=FLOATING), t
    if t % 5 == 0:
        yield 'naive-subclass', Stamp(naive.year, naive.month, naive.day,
                                      naive.hour, naive.minute,
                                      naive.second), t
        a = aware.astimezone(FIXED[0])      # (never fromtimestamp(): it asks
        yield 'aware-subclass', Stamp(      # the C library, see right/ zones)
            a.year, a.month, a.day, a.hour, a.minute, a.second,
            tzinfo=FIXED[0]), t
    for i, tz in enumerate(FIXED):
        yield 'aware-fixed%d' % i, aware.astimezone(tz), t
    if t % 5 == 0:
        for i, tz in enumerate(SUBSECOND):
            # the same instant t (+ 0, 1, 999999 microseconds) seen from a
            # zone whose offset has a fractional second
            for us in (0, 999999) if t % 2 else (1, 500000):
                yield 'aware-subsecond%d-us%d' % (i, us), (
                    aware + datetime.timedelta(microseconds=us)
                ).astimezone(tz), t
    st = time.struct_time((naive.year, naive.month, naive.day, naive.hour,
                           naive.minute, naive.second, naive.weekday(),
                           naive.timetuple().tm_yday, 0))
    yield 'struct_time', st, t
    st1 = time.struct_time(tuple(st[:8]) + (1,))
    yield 'struct_time-isdst1', st1, t
    st2 = time.struct_time(tuple(st[:8]) + (-1,))
    yield 'struct_time-isdst-1', st2, t
    if t % 3 == 0 and t >= 60:
        # a leap-second style field: second 60 / 61 of the minute before
        # (plain arithmetic on the fields read as UTC, whatever the zone)
        before = (aware - datetime.timedelta(seconds=60 + t % 60)).replace(
            tzinfo=None)
        for sec in (60, 61):
            yield 'struct_time-sec%d' % sec, time.struct_time((
                before.year, before.month, before.day, before.hour,
                before.minute, sec, before.weekday(),
                before.timetuple().tm_yday, -1 if sec == 60 else 0)), \
                t - 60 - t % 60 + sec
    # 11-field struct_times (as time.localtime / strptime('%z') build them):
    # the zone name and UTC offset they carry do not change the reading -
    # the fields are read as UTC whatever they say
    for k, (zone, off) in enumerate(ZONE_FIELDS):
        if k >= 3 and t % 7:
            continue
        for isdst in ((0, 1) if t % 7 == 0 else ((k + 1) % 2,)):
            yield 'struct_time-%s%s-isdst%d' % (zone, off, isdst), \
                time.struct_time(tuple(st[:8]) + (isdst, zone, off)), t
    for name, zi in zones:
        yield 'aware-' + name, aware.astimezone(zi), t
        # the same wall-clock fields with both folds
        for fold in (0, 1):
            wall = naive.replace(tzinfo=zi, fold=fold)
            delta = wall - EPOCH
            absolute = delta.days * 86400 + delta.seconds
            if absolute >= 0:
                yield 'wall-%s-fold%d' % (name, fold), wall, absolute


def main():
    instants = json.load(open(sys.argv[1]))
    from pamqp import commands, decode, encode, frame, header
    late = os.environ.get('MC_TZ_LATE')
    if late:
        # the application selects its zone after the libraries are loaded
        # (what a framework applying a TIME_ZONE setting does)
        os.environ['TZ'] = late
        time.tzset()
    zones = [(n, zoneinfo.ZoneInfo(n)) for n in DST_ZONES]
    digest = hashlib.sha256()
    n = 0
    violations = []
    samples = []
    local_offsets = set()
    env_bad = 0
    for t in instants:
        local_offsets.add(time.localtime(min(t, 2**31 - 1)).tm_gmtoff)
        zsel = zones if t % 7 == 0 or len(instants) < 50 else zones[t % 6:
                                                                  t % 6 + 1]
        for label, value, absolute in forms(t, zsel):
            n += 1
            try:
                data = encode.timestamp(value)
            except Exception as exc:  # noqa
                data = None
                err = repr(exc)
            want = struct.pack('>Q', absolute)
            if data != want:
                if len(violations) < 5:
                    violations.append({
                        'stage': 'encode', 'form': label, 'instant': t,
                        'value': repr(value), 'want': want.hex(),
                        'got': data.hex() if data is not None else err})
                digest.update(b'X')
                continue
            try:
                consumed, back = decode.timestamp(data)
                ok = (consumed == 8 and
                      isinstance(back, datetime.datetime) and
                      back.tzinfo is not None and
                      back.utcoffset() == datetime.timedelta(0) and
                      back == EPOCH + datetime.timedelta(seconds=absolute))
                shown = back.isoformat() if isinstance(
                    back, datetime.datetime) else repr(back)
            except Exception as exc:  # noqa
                ok, shown = False, repr(exc)
            if not ok and len(violations) < 5:
                violations.append({'stage': 'decode', 'form': label,
                                   'instant': t, 'value': repr(value),
                                   'want': (EPOCH + datetime.timedelta(
                                       seconds=absolute)).isoformat(),
                                   'got': shown})
            digest.update(('%s|%d|%s|%s\n' % (label, t, data.hex(),
                                              shown)).encode())
            if label in ('naive', 'aware-fixed0', 'struct_time') or \
                    label.startswith('wall-'):
                # the same value as a message property and inside a method
                # argument table, through the frame-level API (the two folds
                # of one wall-clock time are equal-but-distinct values that
                # follow each other here)
                n += 1
                try:
                    props = commands.Basic.Properties(timestamp=value)
                    hdr = frame.marshal(header.ContentHeader(0, 1, props), 1)
                    back_h = frame.unmarshal(hdr)[2].properties.timestamp
                    qd = frame.marshal(commands.Queue.Declare(
                        queue='q', arguments={'t': value}), 1)
                    back_q = frame.unmarshal(qd)[2].arguments['t']
                    okp = (hdr[-9:-1] == want and qd[-9:-1] == want and
                           back_h == EPOCH + datetime.timedelta(
                               seconds=absolute) and back_q == back_h and
                           back_h.utcoffset() == datetime.timedelta(0))
                    shown_p = hdr[-9:-1].hex() + '/' + qd[-9:-1].hex()
                except Exception as exc:  # noqa
                    okp, shown_p = False, repr(exc)
                if not okp and len(violations) < 5:
                    violations.append({
                        'stage': 'property/argument', 'form': label,
                        'instant': t, 'value': repr(value),
                        'want': want.hex(), 'got': shown_p})
                digest.update(shown_p.encode())
            if n % 40000 == 1:
                samples.append({'form': label, 'instant': t,
                                'bytes': data.hex(), 'decoded': shown})
    # struct_times the process environment builds (their fields differ from
    # child to child, so they are judged case by case and stay out of the
    # digest): localtime(), gmtime(), strptime with %z, datetime.timetuple()
    def as_utc(st):
        d = datetime.datetime(*st[:6], tzinfo=UTC) - EPOCH
        return d.days * 86400 + d.seconds

    for t in instants[::max(1, len(instants) // 3000)]:
        env = [('localtime()', time.localtime(t)),
               ('gmtime()', time.gmtime(t)),
               ('naive.timetuple()', (EPOCH + datetime.timedelta(
                   seconds=t)).replace(tzinfo=None).timetuple())]
        for name, zi in zones[t % 6:t % 6 + 1]:
            env.append(('aware-%s.timetuple()' % name, (
                EPOCH + datetime.timedelta(seconds=t)).astimezone(
                    zi).timetuple()))
        if t < 2 ** 31:
            text = time.strftime('%Y-%m-%d %H:%M:%S', time.gmtime(t))
            for z in ('+0200', '-0500', '+0000'):
                env.append(('strptime(%z=' + z + ')', time.strptime(
                    text + ' ' + z, '%Y-%m-%d %H:%M:%S %z')))
        for label, st in env:
            absolute = as_utc(st)
            if absolute < 0:
                continue
            n += 1
            want = struct.pack('>Q', absolute)
            got = []
            try:
                got.append(encode.timestamp(st))
                got.append(encode.field_table({'t': st})[-8:])
                got.append(encode.field_array([st])[-8:])
                got.append(frame.marshal(header.ContentHeader(
                    0, 1, commands.Basic.Properties(timestamp=st)), 1)[-9:-1])
                got.append(frame.marshal(commands.Queue.Declare(
                    queue='q', arguments={'t': [st]}), 1)[-9:-1])
            except Exception as exc:  # noqa
                got.append(repr(exc).encode())
            if any(g != want for g in got) or len(got) != 5:
                if len(violations) < 5:
                    violations.append({
                        'stage': 'encode (direct, table value, array '
                                 'element, property, method argument)',
                        'form': label, 'instant': t, 'value': repr(st),
                        'want': want.hex() + ' (the fields read as UTC)',
                        'got': [g.hex() if len(g) == 8 else g.decode(
                            'utf-8', 'replace') for g in got]})
                env_bad += 1
    # table values and properties go through the same code: one probe each
    probe = datetime.datetime(2020, 3, 8, 2, 30)     # naive, DST gap in NY
    tb = encode.field_table({'t': probe, 's': time.struct_time(
        (2020, 3, 8, 2, 30, 0, 6, 68, -1))})
    digest.update(tb)
    back = decode.field_table(tb)[1]
    digest.update(repr(sorted((k, v.isoformat()) for k, v in
                              back.items())).encode())
    want_secs = calendar.timegm((2020, 3, 8, 2, 30, 0))
    if tb.count(struct.pack('>Q', want_secs)) != 2 and len(violations) < 5:
        violations.append({'stage': 'table', 'form': 'naive+struct_time in '
                           'table', 'instant': want_secs,
                           'value': repr(probe), 'want': struct.pack(
                               '>Q', want_secs).hex(), 'got': tb.hex()})
    print(json.dumps({'cases': n, 'digest': digest.hexdigest(),
                      'env_struct_time_mismatches': env_bad,
                      'violations': violations, 'samples': samples[:4],
                      'tzname': list(time.tzname),
                      'local_utc_offsets_seen': sorted(local_offsets)[:6]}))


if __name__ == '__main__':
    main()
