"""Field-value space (shared by C03, C04, C10, C12)."""
import itertools
import random

from mc import alphabets as A

POSITIONS = ('top', 'array', 'table')


def value_tasks(tier):
    out = [('scalars',), ('keys',), ('deep',), ('onehot',), ('mixed',)]
    max_nodes = 8 if tier == 'thorough' else 5
    out += [('trees', n) for n in range(2, max_nodes + 1)]
    max_chain = 14 if tier == 'thorough' else 10
    out += [('chains', k) for k in range(1, max_chain + 1)]
    return out


def _trees_exact(n):
    return [t for t in A.trees(n) if 1 + _size(t) - 1 == n]


def _size(shape):
    return 1 + sum(_size(c) for c in shape)


def leaves_of(shape):
    if not shape:
        return 1
    return sum(leaves_of(c) for c in shape)


def values(task, tier, seed=0):
    """Yield encodable field values for one task (simplest first)."""
    kind = task[0]
    if kind == 'scalars':
        for v in A.SCALARS:
            yield v
        rnd = random.Random(seed)
        for _ in range(32):   # seeded interior integers (extra, not counted
            yield rnd.randint(-2**63, 2**63 - 1)   # as part of the bound)
    elif kind == 'keys':
        for k in A.KEYS:
            yield {k: 1}
            yield {k: {k: [k]}}
        yield {k: i for i, k in enumerate(A.KEYS)}
        yield A.rich_table()
        for t in A.TABLES:
            if t is not None:
                yield t
    elif kind == 'deep':
        for pattern in ('list', 'dict', 'alt', 'alt2'):
            for depth in (16, 31, 32):
                yield A.deep(depth, pattern)
    elif kind == 'trees':
        n = task[1]
        for shape in A.trees(n):
            if not shape or _size(shape) != n:
                continue
            inner = A.count_inner(shape)
            for kinds in itertools.product('LD', repeat=inner):
                for leaf in list(A.LEAVES9) + [[], {}]:
                    yield A.realise(shape, iter(kinds), lambda lv=leaf: lv)
    elif kind == 'onehot':
        # every scalar in every leaf position of every tree <= 4 nodes,
        # the other leaves fixed to 1; inner nodes all-list and all-dict
        for shape in A.trees(4):
            if not shape:
                continue
            nleaves = leaves_of(shape)
            inner = A.count_inner(shape)
            for kinds in ('L' * inner, 'D' * inner):
                for hot in range(nleaves):
                    for s in A.SCALARS:
                        counter = itertools.count()
                        yield A.realise(
                            shape, iter(kinds),
                            lambda s=s, c=counter, h=hot:
                            s if next(c) == h else 1)
    elif kind == 'chains':
        for v in A.chains(task[1]):
            yield v
    elif kind == 'mixed':
        yield list(A.SCALARS)
        yield {'k%03d' % i: s for i, s in enumerate(A.SCALARS)}
        yield [list(A.SCALARS), {'x': list(A.SCALARS)}]
        yield [A.rich_table(), A.rich_table()]
        yield []
        yield {}
        yield [[]]
        yield [{}]
        yield {'': {}}
        yield {'': []}
