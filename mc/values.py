"""Field-value space (shared by C03, C04, C10, C12)."""
import itertools
import random

import datetime

from mc import alphabets as A

POSITIONS = ('top', 'array', 'table')


HOMOG = [
    ('bool', [True, False]), ('int8', [5, -5, 127, -128]),
    ('int16', [300, -300, 32767, -32768]), ('uint16', [40000, 65535, 32768]),
    ('int32', [100000, -100000, 2**31 - 1, -2**31]),
    ('uint32', [3000000000, 2**32 - 1, 2**31]),
    ('int64', [2**40, -2**40, 2**63 - 1, -2**63]),
    ('float', [1.5, -0.0, 2.0**-20]), ('decimal', [A.D('1.5'), A.D('-2.50'),
                                                    A.D('0')]),
    ('str', ['s', '', 'é']), ('bytearray', [bytearray(b'x'), bytearray()]),
    ('timestamp', [A.dt(1600000000), A.dt(0)]), ('none', [None]),
    ('list', [[1], []]), ('dict', [{'a': 1}, {}]),
]
COUNTS = list(range(0, 70)) + [100, 127, 128, 255, 256, 257, 400]


def homogeneous(kind_index, tier):
    """Arrays (and tables) of n elements of one kind, for every n of a dense
    range, all-same and cycling values; and the same with one element of
    another type at the first / middle / last position."""
    name, vals = HOMOG[kind_index]
    # interior size thresholds (bulk paths switch on at some count)
    counts = COUNTS + [511, 512, 513, 1024, 1025] + (
        [1000, 2000, 2048, 4096, 5000] if tier == 'thorough' else [])
    odd = [7 if name == 'bool' else True, None,
           'x' if name != 'str' else 1.5]
    for n in counts:
        yield [vals[0]] * n
        if len(vals) > 1:
            yield [vals[i % len(vals)] for i in range(n)]
        yield {'k%04d' % i: vals[i % len(vals)] for i in range(n)}
        if n and (n < 40 or n % 4 == 0 or n > 500):
            for pos in sorted({0, min(1, n - 1), n // 2, n - 1}):
                for o in odd:
                    arr = [vals[i % len(vals)] for i in range(n)]
                    arr[pos] = o
                    yield arr


# values whose ENCODINGS contain bytes equal to type-tag letters: a decoder
# that searches or counts tag bytes instead of walking the fields is fooled
TAGBYTES = [0x62, 0x74, 0x73, 0x49, 0x6c, 0x6262, 0x7373, 0x4949,
            0x6c6c6c6c, 0x49494949, 0x6c6c6c6c6c6c6c6c, 2**40, 256, 1, True,
            False, None, 't', 'tt', 'ttttt', 'b', 'bbb', 's', 'ssss', 'l',
            'long', 'I', 'iIi', 'SS', 'AF', 'V']


WIDE_KEYS = ['\uffff', '\U00010000', '\ue000', '\U0010ffff', '\ud7ff', 'z']
RECORD_KEYS = [['a'], ['a', 'b', 'c'], ['queue', 'reason', 'count', 'time'],
               ['k' * 128, 'b'], ['k' * 129, 'b'], ['k' * 129, 'j' * 130],
               ['k' * 200], ['é' * 64 + 'x', 'é' * 65], ['é' * 127 + 'ab'],
               ['', 'a'], ['\uffff', '\U00010000']]


class FoldZone(datetime.tzinfo):
    """A zone with one repeated hour (offset +2h before 2021-10-31 01:00 UTC,
    +1h after), honouring fold - two datetimes with the same wall time in the
    repeated hour compare and hash equal and are an hour apart."""

    def utcoffset(self, dt):
        wall = dt.replace(tzinfo=None)
        if wall < datetime.datetime(2021, 10, 31, 2, 0):
            return datetime.timedelta(hours=2)
        if wall < datetime.datetime(2021, 10, 31, 3, 0) and not dt.fold:
            return datetime.timedelta(hours=2)
        return datetime.timedelta(hours=1)

    def dst(self, dt):
        return self.utcoffset(dt) - datetime.timedelta(hours=1)

    def tzname(self, dt):
        return 'FOLD'


_FOLD = FoldZone()


def equal_but_different():
    D = A.D
    wall = datetime.datetime(2021, 10, 31, 2, 30, tzinfo=_FOLD)
    pairs = [(wall, wall.replace(fold=1)),
             (wall.replace(minute=0), wall.replace(minute=0, fold=1)),
             (1, True), (0, False), (1, 1.0), (0, 0.0), (0.0, -0.0),
             (1, D('1')), (D('1.0'), D('1.00')), (D('0'), D('-0')),
             (1.5, D('1.5')), (2**53, float(2**53)),
             (A.dt(1600000000), A.dt(1600000000, A.FIXED_OFFSETS[0])),
             ('a', 'a'[:]), ('', ''), ([], []), ({}, {}),
             ([1], [True]), ({'k': 1}, {'k': 1.0}), ([0.0], [-0.0])]
    try:
        import zoneinfo
        z = zoneinfo.ZoneInfo('Europe/Berlin')
        real = datetime.datetime(2021, 10, 31, 2, 30, tzinfo=z)
        pairs.append((real, real.replace(fold=1)))
    except Exception:  # noqa - no tz database
        pass
    return pairs


def value_tasks(tier):
    out = [('scalars',), ('keys',), ('deep',), ('onehot',), ('mixed',),
           ('shared',), ('records',), ('equal-siblings',)]
    # every nesting depth: up to 32 acceptance is required, beyond it
    # whatever is accepted must still round-trip (and equal the reference)
    out += [('depths', 1, 17), ('depths', 17, 33), ('depths', 33, 80),
            ('depths', 80, 130)]
    if tier == 'thorough':
        out += [('depths', 130, 170), ('depths', 170, 201)]
    out += [('tagbytes', i) for i in range(len(TAGBYTES))]
    out += [('homog', k) for k in range(len(HOMOG))]
    max_nodes = 8 if tier == 'thorough' else 5
    out += [('trees', n) for n in range(2, max_nodes + 1)]
    max_chain = 14 if tier == 'thorough' else 10
    out += [('chains', k) for k in range(1, max_chain + 1)]
    return out


def _trees_exact(n):
    return [t for t in A.trees(n) if 1 + _size(t) - 1 == n]


def _size(shape):
    return 1 + sum(_size(c) for c in shape)


def leaves_of(shape):
    if not shape:
        return 1
    return sum(leaves_of(c) for c in shape)


def values(task, tier, seed=0):
    """Yield encodable field values for one task (simplest first)."""
    kind = task[0]
    if kind == 'scalars':
        for v in A.SCALARS:
            yield v
        rnd = random.Random(seed)
        for _ in range(32):   # seeded interior integers (extra, not counted
            yield rnd.randint(-2**63, 2**63 - 1)   # as part of the bound)
    elif kind == 'keys':
        for k in A.KEYS:
            yield {k: 1}
            yield {k: {k: [k]}}
        yield {k: i for i, k in enumerate(A.KEYS)}
        yield A.rich_table()
        for t in A.TABLES:
            if t is not None:
                yield t
        # key pairs whose code-point order differs from their UTF-16
        # code-unit order, both insertion orders, at both nesting positions
        for a in WIDE_KEYS:
            for b in WIDE_KEYS:
                if a != b:
                    yield {a: 1, b: 2}
                    yield [{a: {b: 1, a: 2}}]
                    yield {a + 'x': 1, b + 'x': 2, a: 3}
    elif kind == 'records':
        # arrays of records: n dicts with the same key set (what x-death and
        # similar headers look like), over key sets that include names longer
        # than the field-name limit, and with one record that differs
        for keys in RECORD_KEYS:
            for n in (1, 2, 3, 8):
                rows = [{k: (i if j % 2 else 'v%d' % i)
                         for j, k in enumerate(keys)} for i in range(n)]
                yield rows
                yield {'x-death': rows}
                yield [list(rows)]
                if n >= 2:
                    odd = [dict(r) for r in rows]
                    odd[-1]['extra'] = True
                    yield odd
                    odd = [dict(r) for r in rows]
                    odd[0] = dict(reversed(list(odd[0].items())))
                    yield odd
                    odd = [dict(r) for r in rows]
                    del odd[n // 2][keys[0]]
                    yield odd
    elif kind == 'deep':
        for pattern in ('list', 'dict', 'alt', 'alt2'):
            for depth in (16, 31, 32):
                yield A.deep(depth, pattern)
    elif kind == 'depths':
        # every depth (as a top-level value; one more level when placed in an
        # array or table), scalar / empty-container / string innermost
        lo, hi = task[1], task[2]
        for depth in range(lo, hi):
            for pattern in ('list', 'dict', 'alt', 'alt2'):
                yield A.deep(depth, pattern)
                yield A.deep(depth - 1, pattern, [] if depth % 2 else {})
                if depth % 4 == 0:
                    yield A.deep(depth, pattern, 'leaf')
    elif kind == 'trees':
        n = task[1]
        for shape in A.trees(n):
            if not shape or _size(shape) != n:
                continue
            inner = A.count_inner(shape)
            for kinds in itertools.product('LD', repeat=inner):
                for leaf in list(A.LEAVES9) + [[], {}]:
                    yield A.realise(shape, iter(kinds), lambda lv=leaf: lv)
    elif kind == 'onehot':
        # every scalar in every leaf position of every tree <= 4 nodes,
        # the other leaves fixed to 1; inner nodes all-list and all-dict
        for shape in A.trees(4):
            if not shape:
                continue
            nleaves = leaves_of(shape)
            inner = A.count_inner(shape)
            for kinds in ('L' * inner, 'D' * inner):
                for hot in range(nleaves):
                    for s in A.SCALARS:
                        counter = itertools.count()
                        yield A.realise(
                            shape, iter(kinds),
                            lambda s=s, c=counter, h=hot:
                            s if next(c) == h else 1)
    elif kind == 'tagbytes':
        first = TAGBYTES[task[1]]
        yield [first]
        for b in TAGBYTES:
            yield [first, b]
            yield {'k': first, 't': b}
            for c_ in TAGBYTES:
                yield [first, b, c_]
                if tier == 'thorough':
                    for d in TAGBYTES:
                        yield [first, b, c_, d]
    elif kind == 'homog':
        for v in homogeneous(task[1], tier):
            yield v
    elif kind == 'chains':
        for v in A.chains(task[1]):
            yield v
    elif kind == 'shared':
        # the same list / dict / bytearray OBJECT at several non-ancestor
        # positions of one value (a DAG, not a cycle)
        for leaf in ([1, 'x'], {'k': 1}, [[2]], {'n': {'m': [3]}},
                     bytearray(b'ab'), [], {}):
            yield [leaf, leaf]
            yield {'a': leaf, 'b': leaf}
            yield {'l': {'x': leaf}, 'r': {'x': leaf}}
            yield [leaf, [leaf], {'k': leaf}, leaf]
            yield {'a': [leaf, leaf], 'b': {'c': leaf}, 'z': leaf}
            mid = {'inner': leaf, 'again': leaf}
            yield {'m1': mid, 'm2': mid, 'list': [mid, mid]}
    elif kind == 'equal-siblings':
        # neighbours that compare (and hash) EQUAL yet are different values:
        # whatever is remembered per value within one container conflates them
        for pair in equal_but_different():
            a, b = pair
            yield [a, b]
            yield [b, a]
            yield [a, b, a, b]
            yield {'x': a, 'y': b}
            yield {'l': [a], 'm': [b], 'n': [[a, b]]}
            yield [a, [b], {'k': a, 'j': b}]
    elif kind == 'mixed':
        yield list(A.SCALARS)
        yield {'k%03d' % i: s for i, s in enumerate(A.SCALARS)}
        yield [list(A.SCALARS), {'x': list(A.SCALARS)}]
        yield [A.rich_table(), A.rich_table()]
        yield []
        yield {}
        yield [[]]
        yield [{}]
        yield {'': {}}
        yield {'': []}


# ---------------------------------------------------------------------------
# Every Unicode code point inside strings (not only in validated names):
# alone, first and last character of a long string, and inside field names.

CP_BLOCK = 64
CP_RANGES = [(0, 0xD800), (0xE000, 0x110000)]


def codepoint_tasks():
    out = []
    for lo, hi in CP_RANGES:
        step = 0x4000
        for a in range(lo, hi, step):
            out.append(('codepoints', a, min(hi, a + step)))
    return out


def codepoint_blocks(lo, hi):
    """Yield (first code point, [strings], {field name: value}) per block of
    64 code points: each code point alone, first and last in a string; and
    as first / last character of a field name."""
    for a in range(lo, hi, CP_BLOCK):
        cps = [chr(c) for c in range(a, min(hi, a + CP_BLOCK))]
        strings = []
        names = {}
        for i, c in enumerate(cps):
            strings += [c, c + 'ab', 'ab' + c]
            names[c + 'k%d' % i] = i
            names['k%d' % i + c] = c
        yield a, strings, names
