"""./check <id> [--tier quick|thorough] [--replay <path>]"""
import argparse
import glob
import importlib
import json
import logging
import os
import subprocess
import sys
import time

from mc import runner

VERIF = runner.VERIF
ALL = ['C%02d' % i for i in range(1, 21)]


def load_known():
    path = os.path.join(VERIF, 'known_findings.json')
    if not os.path.exists(path):
        return {'known': [], 'fixed': []}
    with open(path) as fh:
        return json.load(fh)


def validate_evidence(path):
    schema = '/root/.vp/EVIDENCE.schema.json'
    local = os.path.join(VERIF, 'mc', 'EVIDENCE.schema.json')
    if not os.path.exists(schema):
        schema = local
    if not os.path.exists(schema):
        return None
    code = ('import json,sys,jsonschema;'
            'jsonschema.validate(json.load(open(sys.argv[1])),'
            'json.load(open(sys.argv[2])))')
    try:
        out = subprocess.run(['python3-vt', '-c', code, path, schema],
                             capture_output=True, text=True, timeout=120)
    except (OSError, subprocess.SubprocessError):
        return None
    if out.returncode != 0:
        return out.stderr.strip().splitlines()[-1:] or ['invalid']
    return []


def optimisation_sensitive_sites():
    """`assert` statements and uses of `__debug__` in the library source:
    the only constructs whose behaviour differs under `python -O`.  When
    there are none (the pinned tree has none) running the interpreter with
    optimisation on cannot change any result and the second run is skipped."""
    import ast
    sites = []
    root = os.path.join(runner.REPO, 'pamqp')
    for name in sorted(os.listdir(root)):
        if not name.endswith('.py'):
            continue
        path = os.path.join(root, name)
        try:
            tree = ast.parse(open(path, encoding='utf-8').read())
        except (OSError, SyntaxError):
            continue
        for node in ast.walk(tree):
            if isinstance(node, ast.Assert) or (
                    isinstance(node, ast.Name) and node.id == '__debug__'):
                sites.append('%s:%d' % (name, node.lineno))
    return sites


IMPORT_FLAGS = [('-O',), ('-OO',), ('-bb',), ('-W', 'error'), ('-X', 'dev'),
                ('-OO', '-bb', '-W', 'error')]
# the interpreter settings the environment-sensitive tasks are repeated
# under, each in its own child process
ENV_CHILDREN = [
    (('-bb',), 'str() of bytes is an error'),
    (('-OO', '-bb'), 'asserts and docstrings stripped, str() of bytes is an '
     'error'),
]
MODULES = ('pamqp', 'pamqp.common', 'pamqp.constants', 'pamqp.exceptions',
           'pamqp.encode', 'pamqp.decode', 'pamqp.base', 'pamqp.commands',
           'pamqp.body', 'pamqp.header', 'pamqp.heartbeat', 'pamqp.frame')


def import_probe(flags):
    """Import every module of the library in a fresh interpreter started
    with the given flags. The parent imported them, so a failure is the
    library's dependence on the interpreter setting. Returns None or what
    went wrong."""
    env = dict(os.environ)
    env.pop('PYTHONOPTIMIZE', None)
    env.pop('PYTHONWARNINGS', None)
    try:
        res = subprocess.run(
            [sys.executable] + list(flags) +
            ['-c', 'import sys; sys.path.insert(0, %r)\nimport %s' % (
                runner.REPO, ', '.join(MODULES))],
            capture_output=True, text=True, timeout=120, env=env,
            cwd=runner.REPO)
    except subprocess.TimeoutExpired:
        return 'importing the library under python %s did not finish' % (
            ' '.join(flags))
    if res.returncode:
        tail = (res.stderr.strip().splitlines() or ['?'])[-1]
        return 'the library cannot be imported under python %s: %s' % (
            ' '.join(flags), tail[:300])
    return None


def rerun_optimised(prop, tier, seed, flags=('-O',), subset=False):
    """The same check (or, with subset, the tasks the module names in
    env_tasks()) in a child interpreter started with other flags (-O: asserts
    stripped; -bb: str() of bytes is an error): process environment, like the
    time zone.  Returns (violations, summary line, exit status)."""
    import tempfile
    fd, out = tempfile.mkstemp(prefix='opt-', suffix='.json',
                               dir=os.path.join(VERIF, '.cache'))
    os.close(fd)
    env = dict(os.environ, MC_OPT_CHILD=out, VERIF_SEED=str(seed))
    if subset:
        env['MC_ENV_SUBSET'] = '1'
    try:
        res = subprocess.run([sys.executable] + list(flags) + [
            '-m', 'mc.cli', prop, '--tier', tier, '--no-evidence'], env=env,
            capture_output=True, text=True, timeout=7200)
        try:
            with open(out) as fh:
                viol = json.load(fh)
        except (OSError, ValueError):
            viol = None
        last = (res.stdout.strip().splitlines() or [''])[-1]
        return viol, last, res.returncode
    finally:
        try:
            os.unlink(out)
        except OSError:
            pass


def main(argv=None):
    ap = argparse.ArgumentParser()
    ap.add_argument('prop')
    ap.add_argument('--tier', default=os.environ.get('VERIF_TIER') or 'quick',
                    choices=['quick', 'thorough'])
    ap.add_argument('--replay')
    ap.add_argument('--workers', type=int, default=0)
    ap.add_argument('--no-evidence', action='store_true')
    args = ap.parse_args(argv)
    prop = args.prop.upper()
    if prop not in ALL:
        ap.error('unknown property ' + prop)
    try:
        seed = int(os.environ.get('VERIF_SEED') or 0)
    except ValueError:
        seed = 0
    logging.disable(logging.CRITICAL)   # pamqp logs key truncation warnings
    sys.setrecursionlimit(max(sys.getrecursionlimit(), 1000))
    mod = importlib.import_module('mc.props.' + prop.lower())

    if args.replay:
        with open(args.replay) as fh:
            rep = json.load(fh)
        case = rep['case']
        if isinstance(case, dict) and case.get('python_O'):
            if not sys.flags.optimize:
                res = subprocess.run([sys.executable, '-O', '-m', 'mc.cli'] +
                                     sys.argv[1:])
                return res.returncode
            case = case['case']
        if isinstance(case, dict) and case.get('python_bb'):
            if sys.flags.bytes_warning < 2:
                res = subprocess.run([sys.executable, '-bb', '-m', 'mc.cli'] +
                                     sys.argv[1:])
                return res.returncode
            case = case['case']
        if isinstance(case, dict) and case.get('python_flags'):
            if not os.environ.get('MC_REPLAY_CHILD'):
                res = subprocess.run(
                    [sys.executable] + list(case['python_flags']) +
                    ['-m', 'mc.cli'] + sys.argv[1:],
                    env=dict(os.environ, MC_REPLAY_CHILD='1'))
                return res.returncode
            case = case['case']
        if isinstance(case, dict) and case.get('import_probe'):
            bad = import_probe(tuple(case['import_probe']))
            if bad:
                print('REPLAY property=%s still violates: %s' % (prop, bad))
                return 1
            print('REPLAY property=%s: no violation on the current tree'
                  % prop)
            return 0
        ctx = runner.Ctx(prop, args.tier, seed)
        mod.replay(case, ctx)
        if ctx.violations:
            v = ctx.violations[0]
            print('REPLAY property=%s still violates: %s' % (prop,
                                                             v['message']))
            print(json.dumps({'expected': v['expected'],
                              'observed': v['observed']}, default=repr)[:2000])
            return 1
        print('REPLAY property=%s: no violation on the current tree' % prop)
        return 0

    t0 = time.time()
    from mc import corpus
    corpus.set_tier(args.tier)
    tasks = mod.tasks(args.tier, seed)
    if os.environ.get('MC_ENV_SUBSET') and hasattr(mod, 'env_tasks'):
        tasks = mod.env_tasks(args.tier, seed)
    # engine self-test: the first task must replay identically
    selftest = None
    if tasks and getattr(mod, 'SELFTEST', True):
        runner._WORK.update(mod=mod, tier=args.tier, seed=seed)
        first = getattr(mod, 'SELFTEST_TASK', None) or tasks[0]
        a = runner._run_one((0, first))
        b = runner._run_one((0, first))
        keys = ('evaluations', 'transitions', 'validated', 'states',
                'outcomes', 'nviolations')
        selftest = all(a[k] == b[k] for k in keys)
        selftest_runs = (a, b)
    merged = runner.run_tasks(mod, tasks, args.tier, seed, args.workers)
    if selftest is False:
        # The same task gave different observations when run twice in one
        # process: the library's behaviour depends on history.  Whatever the
        # two runs flagged is reported; with nothing flagged anywhere the
        # run cannot be trusted and is an engine error.
        for r in selftest_runs:
            merged.violations.extend(r['violations'])
            merged.nviolations += r['nviolations']
        print('NOTE property=%s: replaying the first task twice in one '
              'process gave different observations (history-dependent '
              'behaviour of the code under test)' % prop)
        if not merged.violations and not merged.errors:
            print('ENGINE-ERROR property=%s: non-reproducible observations '
                  'and no violation to report' % prop)
            return 2
    extras = {}
    if hasattr(mod, 'finish'):
        extras = mod.finish(merged, args.tier, seed) or {}
    child_out = os.environ.get('MC_OPT_CHILD')
    if child_out:
        # this IS the optimised child: hand the violations to the parent
        runner.write_json(child_out, [
            {k: v.get(k) for k in ('fingerprint', 'message', 'case',
                                   'expected', 'observed')}
            for v in merged.violations[:200]])
    else:
        sites = optimisation_sensitive_sites()
        extras['python_O_sensitive_sites'] = sites[:20]
        if sites:
            viol, last, rc = rerun_optimised(prop, args.tier, seed)
            extras['python_O_rerun'] = last[:300]
            if viol is None or rc == 2:
                merged.errors.append('the rerun under python -O failed: ' +
                                     last[:300])
            for v in viol or []:
                v['fingerprint'] = 'python -O|' + str(v['fingerprint'])
                v['message'] = ('[interpreter started with -O: asserts '
                                'stripped] ' + str(v['message']))
                v['case'] = {'python_O': True, 'case': v.get('case')}
                merged.violations.append(v)
                merged.nviolations += 1
        else:
            extras['python_O_rerun'] = ('not needed: no assert statement '
                                        'and no __debug__ in pamqp/*.py')
        from concurrent.futures import ThreadPoolExecutor
        with ThreadPoolExecutor(8) as tp:
            probes = list(tp.map(import_probe, IMPORT_FLAGS))
            children = []
            if hasattr(mod, 'env_tasks'):
                # the tasks that reach error paths, logging and warnings
                # once more in interpreters started with other flags
                children = list(tp.map(
                    lambda fl: rerun_optimised(prop, args.tier, seed,
                                               flags=fl[0], subset=True),
                    ENV_CHILDREN))
        extras['import_probes'] = {' '.join(f): (b or 'ok') for f, b in
                                   zip(IMPORT_FLAGS, probes)}
        for flags, bad in zip(IMPORT_FLAGS, probes):
            if bad:
                merged.violations.append({
                    'fingerprint': 'import|' + ' '.join(flags),
                    'message': bad, 'case': {'import_probe': list(flags)},
                    'expected': 'imports as in a plain interpreter',
                    'observed': bad})
                merged.nviolations += 1
        for (flags, what), (viol, last, rc) in zip(ENV_CHILDREN, children):
            tag = 'python ' + ' '.join(flags)
            extras.setdefault('python_flag_reruns', {})[tag] = last[:300]
            if ' '.join(flags) == '-bb':
                extras['python_bb_rerun'] = last[:300]
            if viol is None or rc == 2:
                if not any(b for f, b in zip(IMPORT_FLAGS, probes)):
                    merged.errors.append('the rerun under %s failed: %s' % (
                        tag, last[:300]))
                continue
            for v in viol or []:
                v['fingerprint'] = tag + '|' + str(v['fingerprint'])
                v['message'] = '[interpreter started with %s: %s] %s' % (
                    ' '.join(flags), what, v['message'])
                v['case'] = {'python_flags': list(flags),
                             'case': v.get('case')}
                merged.violations.append(v)
                merged.nviolations += 1
    wall = time.time() - t0

    if merged.errors:
        for e in merged.errors[:3]:
            print('ENGINE-ERROR property=%s %s' % (prop, e))
        return 2

    known = load_known()
    known_fp = {k['fingerprint']: k for k in known.get('known', [])
                if k.get('property') == prop}
    seen, new, hits = set(), [], []
    for v in merged.violations:
        if v['fingerprint'] in seen:
            continue
        seen.add(v['fingerprint'])
        if v['fingerprint'] in known_fp:
            hits.append(v)
        else:
            new.append(v)
    for v in hits:
        print('KNOWN-FINDING: property=%s %s' % (
            prop, known_fp[v['fingerprint']].get('what', v['message'])))

    os.makedirs(os.path.join(VERIF, 'replays'), exist_ok=True)
    for old in glob.glob(os.path.join(VERIF, 'replays', prop + '-*.json')):
        os.unlink(old)
    for n, v in enumerate(new[:runner.MAX_VIOL_PRINTED]):
        path = os.path.join(VERIF, 'replays', '%s-%d.json' % (prop, n))
        runner.write_json(path, {
            'property': prop, 'fingerprint': v['fingerprint'],
            'message': v['message'], 'case': v['case'],
            'expected': v['expected'], 'observed': v['observed'],
            'tier': args.tier, 'seed': seed,
            'replay_cmd': './check %s --replay %s' % (prop, path)})
        print('VIOLATION property=%s replay=%s' % (prop, path))
        print('  ' + v['message'][:600])
    if len(new) > runner.MAX_VIOL_PRINTED:
        print('  ... %d further distinct violations not written out' %
              (len(new) - runner.MAX_VIOL_PRINTED))

    states = merged.distinct_states()
    nontrivial = merged.distinct_nontrivial()
    exhaustive = not merged.caps and extras.pop('exhaustive', True)
    coverage = {
        'states': states,
        'transitions': merged.transitions,
        'traces_validated_against_impl': merged.validated,
        'evaluations': merged.evaluations,
        'distinct_nontrivial': nontrivial,
        'rule': getattr(mod, 'RULE', ''),
        'samples': merged.pick_samples() or [{'note': 'no sample recorded'}],
        'exhaustive': bool(exhaustive),
        'caps_hit': merged.caps,
        'tasks': merged.tasks,
        'outcomes': dict(sorted(merged.outcomes.items(),
                                key=lambda kv: (-kv[1], kv[0]))[:40]),
        'distinct_outcomes': len(merged.outcomes),
        'counters': dict(merged.counters),
        'maxima': dict(merged.maxima),
        'slowest_tasks': getattr(merged, 'slowest', []),
        'bounds': getattr(mod, 'BOUNDS', {}).get(args.tier, {}),
        'engine_selftest_replayed_identically': selftest,
        'violations_total_cases': merged.nviolations,
        'known_findings_matched': len(hits),
    }
    coverage.update(extras)
    evidence = {
        'property_id': prop, 'tier': args.tier, 'seed': seed,
        'level': getattr(mod, 'LEVEL', 'model_checking'),
        'coverage': coverage,
        'assumptions': getattr(mod, 'ASSUMPTIONS', []),
        'wall_s': round(wall, 3),
        'violations': len(new),
    }
    if not args.no_evidence:
        path = os.path.join(VERIF, 'evidence', prop + '.json')
        os.makedirs(os.path.dirname(path), exist_ok=True)
        runner.write_json(path, evidence)
        problems = validate_evidence(path)
        if problems:
            print('ENGINE-ERROR property=%s evidence does not validate: %s' %
                  (prop, problems))
            return 2
    print('%s %s tier=%s seed=%d states=%d transitions=%d validated=%d '
          'nontrivial=%d outcomes=%d violations=%d known=%d wall=%.1fs%s' % (
              prop, 'FAIL' if new else 'ok', args.tier, seed, states,
              merged.transitions, merged.validated, nontrivial,
              len(merged.outcomes), len(new), len(hits), wall,
              '' if exhaustive else ' (capped: %s)' % '; '.join(merged.caps)))
    return 1 if new else 0


if __name__ == '__main__':
    sys.exit(main())
