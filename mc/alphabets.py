"""Finite alphabets, ordered simplest-first (index 0 is the default choice).

Chosen from the branch points of the code under test: one value on each side
of every comparison, every struct width, every UTF-8 length class.
"""
import datetime
import decimal
import itertools
import time

D = decimal.Decimal
UTC = datetime.timezone.utc


def dt(secs, tz=UTC, us=0):
    base = datetime.datetime(1970, 1, 1, tzinfo=UTC) + datetime.timedelta(
        seconds=secs, microseconds=us)
    if tz is None:
        return base.replace(tzinfo=None)
    return base.astimezone(tz)


OCTET = [0, 1, 127, 128, 255]
SHORT = [0, 1, 255, 256, 32767, 32768, 65535]
LONG = [0, 1, 65535, 65536, 2**31 - 1, 2**31, 2**32 - 1]
LONGLONG = [0, 1, 2**32 - 1, 2**32, 2**53 + 1, 2**63 - 1]
LONGLONG_NEG = [-1, -2**63]          # accepted by the library: must round-trip
CHANNEL = [0, 1, 255, 256, 32767, 32768, 65535]
BODY_SIZE = [0, 1, 2**32 - 1, 2**32, 2**63 - 1, 2**63, 2**64 - 1]

SHORTSTR = ['', 'a', 'é', '€', '\U0001F600', 'Ύ', 'AMQP',
            'a' * 255, 'é' * 127 + 'a']
LONGSTR = ['', 'a', 'é€\U0001F600', '\x00guest\x00guest', 'a' * 255,
           'a' * 256, 'Ύ' * 3, 'a' * 65536]
# text that a helpful library might "tidy": strings that parse as numbers,
# booleans, dates or containers, with padding, signs, separators or
# non-ASCII digits; strings that str.strip / lower / upper / casefold /
# unicodedata.normalize would change. An AMQP string is opaque.
LOOKALIKES = [
    '0', '1', '00', '060000', ' 60000', '60000 ', '60000\n', '\t1', '+60000',
    '-0', '-1', '60_000', '1e3', '1E3', '1.0', '1.50', '.5', '5.', '0x10',
    '0o7', '0b1', '\u0666\u0660', '\uff16\uff10', '\u00b2', 'true', 'True',
    'false', 'null', 'None', 'nan', 'NaN', 'inf', '-inf', 'Infinity', '1j',
    '[]', '{}', '""', "\'\'", "b\'x\'", '2020-01-01', '2020-01-01T00:00:00Z',
    '1600000000', '1600000000000', 'application/json ', ' text/plain',
    'TEXT/PLAIN', 'text/plain; charset=UTF-8', 'utf-8', 'UTF8', 'gzip ',
    'Guest', 'a\r\nb', 'a\nb', '\ufeffa', 'a\u200b', 'e\u0301', '\u212b',
    '\ufb01', '\u01c5', '\u0130', '\u00df', '\u0131', '\u1e9e', 'a\u00a0',
    '\u3000a', 'a  b', 'a/../b', 'a%20b', 'a+b', 'a&amp;b', '&lt;a&gt;',
    '<a>', 'a\\b', 'amq.', 'AMQ.x', '#', '*', 'a.*.b', 'a.#',
]

EXCHANGE_NAMES = ['', 'a', 'amq.topic', 'tag:example.org,2000:q/1 @#_-',
                  'a' * 127]
QUEUE_NAMES = EXCHANGE_NAMES + ['a' * 255]
VHOSTS = ['/', '', 'a', 'é', '€' * 42, 'a' * 127]

FIXED_OFFSETS = [datetime.timezone(datetime.timedelta(hours=5, minutes=30)),
                 datetime.timezone(datetime.timedelta(hours=-11)),
                 datetime.timezone(datetime.timedelta(hours=14))]

TIMESTAMPS = [
    dt(0), dt(1), dt(2**31 - 1), dt(2**31), dt(2**32 - 1),
    dt(1600000000, None), dt(1600000000, FIXED_OFFSETS[0]),
    dt(1600000000, FIXED_OFFSETS[1]), dt(1600000000, UTC, 999999),
    dt(86399, None, 500000),
    time.gmtime(1600000000), time.gmtime(0), time.gmtime(2**32 - 1),
]

# Scalar field values: every ladder boundary +-1, floats, decimals, strings,
# byte arrays, timestamps.
_INT_BOUNDS = [2**7, 2**8, 2**15, 2**16, 2**31, 2**32, 2**63]
INTS = [0, 1, -1, 2, 100, -100]
for _b in _INT_BOUNDS:
    for _s in (1, -1):
        for _d in (-1, 0, 1):
            _v = _s * _b + _d
            if -2**63 <= _v <= 2**63 - 1 and _v not in INTS:
                INTS.append(_v)

FLOATS = [0.0, -0.0, 1.5, -1.5, 0.1, 3.4028234663852886e+38, 1e-45,
          float('inf'), float('-inf'), float('nan'), 1e-50, 16777217.0]

DECIMALS = [D('0'), D('1'), D('-1'), D('1.5'), D('-1.5'), D('0.01'), D('1.10'),
            D('0.00'), D('1E+2'), D('1E-7'), D('1.234E-35'), D('-0.001'),
            D('21474836.47'), D('-21474836.47'), D('-21474836.48'),
            D(2**31 - 1), D(-2**31), D('12.345'), D('-0'),
            D(1).scaleb(-255), D('3.14159')]

STRINGS = ['', 'a', 'é€\U0001F600', 'a' * 256, '\x00', 'Ύ']
BYTEARRAYS = [bytearray(), bytearray(b'\x00\xce'), bytearray(b'AMQP'),
              bytearray(range(256))]

SCALARS = ([True, False, None] + INTS + FLOATS + DECIMALS + STRINGS +
           BYTEARRAYS + TIMESTAMPS)

KEYS = ['', 'a', 'é', 'a' * 128, 'é' * 127, 'é' * 127 + 'a',
        'a\x00b', '\U0001F600', 'B', 'aa']

LEAVES9 = [1, True, None, 'x', 1.5, D('1.5'), bytearray(b'\x01'), dt(1), -129]


def rich_table():
    return {
        'bool_t': True, 'bool_f': False, 'none': None,
        'i8': 127, 'i8n': -128, 'i16': 32767, 'i16n': -32768, 'u16': 65535,
        'i32': 2**31 - 1, 'i32n': -2**31, 'u32': 2**32 - 1,
        'i64': 2**63 - 1, 'i64n': -2**63, 'neg1': -1,
        'float': 1.5, 'dec': D('3.14'), 'decn': D('-1.5'),
        'str': 'é€\U0001F600', 'empty': '',
        'bytes': bytearray(b'\x00\xce\xff'),
        'ts': dt(1600000000), 'ts_naive': dt(1600000000, None),
        'array': [1, 'two', [3, {'four': 4}], [], {}],
        'table': {'inner': {'x': [True, None]}, 'e': {}},
        '': 0,
    }


def nesting(v):
    """Number of container levels of a field value (a scalar has 0)."""
    depth, stack = 0, [(v, 0)]
    while stack:
        x, d = stack.pop()
        if isinstance(x, dict):
            depth = max(depth, d + 1)
            stack.extend((c, d + 1) for c in x.values())
        elif isinstance(x, list):
            depth = max(depth, d + 1)
            stack.extend((c, d + 1) for c in x)
    return depth


MAX_DEPTH = 32      # the nesting every encoder/decoder must handle (C03)


def deep(n, kind='alt', leaf=1):
    """A value nested n levels deep. kind: 'list', 'dict', 'alt', 'alt2'."""
    v = leaf
    for i in range(n):
        use_list = {'list': True, 'dict': False, 'alt': i % 2 == 0,
                    'alt2': i % 2 == 1}[kind]
        v = [v] if use_list else {'k': v}
    return v


def deep_table(n):
    return {'d': deep(n - 1, 'alt')}


# field names whose length in characters and in UTF-8 bytes fall on
# different sides of the limits (128 characters kept by the encoder, 255
# bytes in a short string): <= 128 characters but 130..255 bytes
MB_KEYS = ['é' * 65, 'é' * 127, 'é' * 127 + 'a', '€' * 43, '€' * 85,
           '\U0001F600' * 33, '\U0001F600' * 63, 'a' * 128, 'k€' * 50]


def key_table():
    inner = {k: i for i, k in enumerate(MB_KEYS)}
    return dict(inner, nested={k: [i] for i, k in enumerate(MB_KEYS)},
                arr=[dict(inner)])


TABLES = [None, {}, {'a': 1}, {'b': True, 'a': 'x'}, rich_table(),
          deep_table(8), key_table()]
HEADER_TABLES = [{'a': 1}, {'b': True, 'a': 'x'}, rich_table(), deep_table(8),
                 {}, key_table()]


def trees(max_nodes):
    """All ordered trees with <= max_nodes nodes, as nested shape tuples.

    A shape is () for a leaf or a tuple of child shapes for an inner node.
    """
    memo = {}

    def forests(n):
        # all ordered forests with exactly n nodes
        if n == 0:
            return [()]
        if n in memo:
            return memo[n]
        out = []
        for first in range(1, n + 1):
            for t in exact(first):
                for rest in forests(n - first):
                    out.append((t,) + rest)
        memo[n] = out
        return out

    def exact(n):
        # all ordered trees with exactly n nodes
        return [f for f in forests(n - 1)]

    out = []
    for n in range(1, max_nodes + 1):
        out.extend(exact(n))
    return out


def realise(shape, kinds, leaf):
    """Build a value from a tree shape.

    kinds: iterator yielding 'L'/'D' for each inner node in preorder;
    leaf: callable giving the value of each leaf (called in preorder).
    A node with zero children is a leaf *or* an empty container: the caller
    picks through `leaf`.
    """
    if not shape:
        return leaf()
    kind = next(kinds)
    if kind == 'L':
        return [realise(c, kinds, leaf) for c in shape]
    return {'k%d' % i: realise(c, kinds, leaf) for i, c in enumerate(shape)}


def count_inner(shape):
    if not shape:
        return 0
    return 1 + sum(count_inner(c) for c in shape)


def container_values(max_nodes, leaves=LEAVES9):
    """Every ordered tree <= max_nodes x every L/D labelling of inner nodes x
    all-same leaves from `leaves` (+ empty containers as leaves)."""
    for shape in trees(max_nodes):
        if not shape:
            continue  # a bare leaf is a scalar: covered elsewhere
        inner = count_inner(shape)
        for kinds in itertools.product('LD', repeat=inner):
            for leaf_value in list(leaves) + [[], {}]:
                yield realise(shape, iter(kinds), lambda lv=leaf_value: lv)


def chains(depth):
    """All 2^depth list/dict alternation chains of the given depth."""
    for kinds in itertools.product('LD', repeat=depth):
        v = 7
        for k in reversed(kinds):
            v = [v] if k == 'L' else {'k': v}
        yield v
