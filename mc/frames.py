"""Reference-encoded valid-frame corpus K_all / K_rep with field maps
(shared by C06, C07, C08, C09, C20)."""
import itertools

from mc import alphabets as A
from mc import corpus, refcodec, spec_table


def frame_tasks(tier, headers=True):
    out = [('rep',), ('misc',)]
    if tier == 'thorough':
        out += [('m',) + t for t in corpus.method_tasks(tier)]
    else:
        out += [('m2', m.name) for m in spec_table.METHODS]
    if headers:
        out += [('h',) + tuple(t) for t in corpus.header_tasks(tier)]
    return out


def misc_frames():
    out = []
    bodies = [b'', b'\x00', b'\xce', b'AMQP', b'AMQP\x00\x00\x09\x01',
              refcodec.HEARTBEAT, b'\x01\x00\x01\x00\x00\x00\x04',
              bytes(range(256)), b'a' * 4088, b'\xce' * 17,
              # at and beyond the default maximum frame size (a larger
              # frame-max can be negotiated: these are valid frames)
              b'b' * 131064, b'c' * 131065, b'd' * 200000]
    for i, b in enumerate(bodies):
        for ch in (0, 1, 65535):
            data, fields = refcodec.enc_body_frame(b, ch)
            out.append(('body:%d:%d' % (i, ch), data, fields))
    for ch in A.CHANNEL:
        data, fields = refcodec.enc_heartbeat_frame(ch)
        out.append(('heartbeat:%d' % ch, data, fields))
    for v in ((0, 9, 1), (0, 0, 0), (255, 255, 255), (1, 0, 206)):
        out.append(('protocol:%d.%d.%d' % v,
                    refcodec.enc_protocol_header(*v), []))
    return out


def frames(task, tier, seed=0):
    """Yield (label, data, fields, trivial)."""
    kind = task[0]
    if kind == 'rep':
        for label, data, fields in corpus.k_rep():
            yield label, data, fields, False
    elif kind == 'misc':
        for label, data, fields in misc_frames():
            yield label, data, fields, False
    elif kind == 'm':
        for m, vec, ch, _i in corpus.method_cases(task[1:], 'quick', seed):
            try:
                data, fields = refcodec.enc_method_frame(m, vec, ch)
            except refcodec.RefError:
                continue
            yield ('%s%r' % (m.name, vec))[:120], data, fields, \
                corpus.is_default(m, vec) and ch == 0
    elif kind == 'm2':
        m = spec_table.BY_NAME[task[1]]
        for i, vec in enumerate(corpus.dev_vectors(m, 2)):
            ch = A.CHANNEL[(i + seed) % len(A.CHANNEL)]
            data, fields = refcodec.enc_method_frame(m, vec, ch)
            yield ('%s%r' % (m.name, vec))[:120], data, fields, \
                corpus.is_default(m, vec) and ch == 0
    elif kind == 'h':
        for props, size, ch in corpus.header_cases(task[1:], tier, seed):
            data, fields = refcodec.enc_header_frame(size, props, ch)
            yield ('header%r' % (sorted(props),))[:120], data, fields, \
                not props and size == 0 and ch == 0
