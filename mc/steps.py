"""E5 - deterministic step monitor.

A *step* is a function entry, generator resumption or jump (loop back-edge or
other unconditional jump) executed inside pamqp/* - counted with
sys.monitoring (Python >= 3.12).  Every loop iteration and every call costs at
least one step, so "steps <= a + b*len(input)" bounds the decoding work, and a
hang becomes a finite, reproducible verdict: the call is abandoned (Budget is
raised inside it) as soon as it exceeds its budget.  No wall clock is used.

Fallback for older interpreters: sys.settrace counting 'call' and 'line'
events (every jump target is a new line event), same budget.
"""
import os
import sys
import tracemalloc


class Budget(BaseException):
    """Raised inside the monitored call when the step budget is exhausted."""


def _pamqp_dir():
    import pamqp
    return os.path.dirname(os.path.abspath(pamqp.__file__)) + os.sep


TOOL_ID = 4
_INSTALLED = {}


class Monitor:
    def __init__(self):
        self.dir = _pamqp_dir()
        self.steps = 0
        self.budget = 1 << 62
        self._known = {}
        self.mode = 'monitoring' if hasattr(sys, 'monitoring') else 'settrace'
        if self.mode == 'monitoring' and not _INSTALLED:
            m = sys.monitoring
            m.use_tool_id(TOOL_ID, 'pamqp-verif-steps')
            for ev in (m.events.PY_START, m.events.PY_RESUME):
                m.register_callback(TOOL_ID, ev, self._on_start)
            m.register_callback(TOOL_ID, m.events.JUMP, self._on_jump)
            m.set_events(TOOL_ID, m.events.PY_START | m.events.PY_RESUME |
                         m.events.JUMP)
            _INSTALLED['monitor'] = self

    def _is_lib(self, filename):
        r = self._known.get(filename)
        if r is None:
            r = self._known[filename] = os.path.abspath(filename).startswith(
                self.dir)
        return r

    # -- sys.monitoring callbacks
    def _on_start(self, code, _offset):
        if not self._is_lib(code.co_filename):
            return sys.monitoring.DISABLE
        self.steps += 1
        if self.steps > self.budget:
            raise Budget()

    def _on_jump(self, code, _offset, _dest):
        if not self._is_lib(code.co_filename):
            return sys.monitoring.DISABLE
        self.steps += 1
        if self.steps > self.budget:
            raise Budget()

    # -- settrace fallback
    def _global(self, frame, event, arg):
        if event == 'call' and self._is_lib(frame.f_code.co_filename):
            self.steps += 1
            return self._local
        return None

    def _local(self, frame, event, arg):
        if event == 'line':
            self.steps += 1
            if self.steps > self.budget:
                raise Budget()
        return self._local

    def run(self, func, arg, budget):
        """Returns (outcome, value, steps): outcome in ok/exc/budget."""
        mon = _INSTALLED.get('monitor', self)
        mon.steps, mon.budget = 0, budget
        old = None
        if self.mode == 'settrace':
            old = sys.gettrace()
            sys.settrace(self._global)
        try:
            try:
                value = func(arg)
                outcome = 'ok'
            except Budget:
                outcome, value = 'budget', None
            except RecursionError as exc:
                outcome, value = 'exc', exc
            except Exception as exc:  # noqa
                outcome, value = 'exc', exc
        finally:
            used = mon.steps
            mon.budget = 1 << 62
            if self.mode == 'settrace':
                sys.settrace(old)
        return outcome, value, used


def peak_memory(func, arg):
    """(peak bytes allocated during func(arg), outcome)."""
    started = tracemalloc.is_tracing()
    if not started:
        tracemalloc.start(1)
    tracemalloc.reset_peak()
    base = tracemalloc.get_traced_memory()[0]
    try:
        func(arg)
        outcome = 'ok'
    except Exception:  # noqa
        outcome = 'exc'
    peak = tracemalloc.get_traced_memory()[1] - base
    if not started:
        tracemalloc.stop()
    return peak, outcome


def retained_memory(func, arg):
    """Bytes still allocated after func(arg) returned and its result (or
    exception) was dropped - memory the call pinned somewhere."""
    import gc
    started = tracemalloc.is_tracing()
    if not started:
        tracemalloc.start(1)
    try:
        func(arg)            # warm-up: one-time allocations are not retention
    except Exception:  # noqa
        pass
    gc.collect()
    base = tracemalloc.get_traced_memory()[0]
    try:
        result = func(arg)
        del result
    except Exception:  # noqa
        pass
    gc.collect()
    kept = tracemalloc.get_traced_memory()[0] - base
    if not started:
        tracemalloc.stop()
    return max(0, kept)
