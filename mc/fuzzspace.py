"""The E4 input spaces shared by C06 (envelope clause), C08 and C09."""
import itertools
import struct

from mc import corpus, faults

_KREP = None


def krep():
    global _KREP
    if _KREP is None:
        _KREP = corpus.k_rep()
    return _KREP


FULL16_QUICK = ('header:0', 'header:1', 'method:Basic.Ack')
REDUCED_ALPHABET = b'SAFTDxt\x00\x01\x04\xffa'


LARGE_KINDS = ['strings', 'voids', 'ints', 'empty-tables', 'decimals',
               'timestamps', 'bytearrays', 'nested', 'blobs', 'keys']


def _arr(items):
    body = b''.join(items)
    return b'A' + struct.pack('>I', len(body)) + body


def _tbl(items):
    body = b''.join(bytes([len(k)]) + k + v for k, v in items)
    return b'F' + struct.pack('>I', len(body)) + body


_KBIG = None


def kbig():
    """Representative frames of several KiB (many small entries, big
    strings, nesting) with their structural field maps."""
    global _KBIG
    if _KBIG is None:
        from mc import refcodec, spec_table
        qd = spec_table.BY_NAME['Queue.Declare']

        def method(t):
            return refcodec.enc_method_frame(
                qd, (0, 'q', False, False, False, False, False, t), 1)
        inner = {'k%03d' % i: (i * 37 if i % 3 else 'v%d' % i)
                 for i in range(500)}
        tables = [
            ('big:strings', {'s%03d' % i: 'v' * 10 for i in range(450)}),
            ('big:mixed', {'arr': list(range(-300, 500)),
                           'b': bytearray(3000), 'tail': 's' * 3000,
                           'z': [['q' * 2000], {'w': 'r' * 2500}]}),
            ('big:nested', {'outer': inner, 'after': 'z' * 5000}),
            ('big:front', {'a': 'x' * 9, 'b': bytearray(b'y' * 7),
                           'c': ['s', 1], 'pad': 'p' * 9000}),
        ]
        out = []
        for label, t in tables:
            data, fields = method(t)
            out.append((label, data, fields))
        data, fields = refcodec.enc_header_frame(
            9, {'headers': tables[1][1], 'app_id': 'a' * 200}, 1)
        out.append(('big:header', data, fields))
        _KBIG = out
    return _KBIG


def big_fields(fields, width):
    """The first 24, last 24 and every 9th field of one width."""
    sel = [f for f in fields if f[1] == width and not f[2].startswith(
        'frame.')]
    keep = set(range(24)) | set(range(len(sel) - 24, len(sel))) | \
        set(range(0, len(sel), 9))
    return [f for i, f in enumerate(sel) if i in keep]


def big_rewrites(data, fields):
    """Relation-aware rewrites of length fields of a large frame: around
    the true value, around the bytes really remaining, +4096/+8192/+2^24,
    and the 32-bit extremes; every value of selected 1-byte fields."""
    n = len(data)
    for off, width, kind in big_fields(fields, 4):
        true = struct.unpack('>I', data[off:off + 4])[0]
        rest = n - (off + 4)
        vals = {0, 1, true - 1, true + 1, true + 2, rest - 2, rest - 1, rest,
                rest + 1, true + 4096, true + 8192, true | 0x01000000,
                true // 2, true * 2, 4095, 4096, 4097, 8192, 2**31 - 1,
                2**31, 2**32 - 1}
        for v in sorted(vals):
            if 0 <= v < 2**32 and v != true:
                yield '%s@%d=%d(true %d)' % (kind, off, v, true), \
                    data[:off] + struct.pack('>I', v) + data[off + 4:]
    for off, width, kind in big_fields(fields, 1)[:60]:
        for v in range(256):
            if v != data[off]:
                yield '%s@%d=%02x' % (kind, off, v), \
                    data[:off] + bytes([v]) + data[off + 1:]


def large_values(kind, n):
    """Dense, grammar-valid field values with n elements."""
    if kind == 'strings':
        return _arr([b'S\x00\x00\x00\x01a'] * n)
    if kind == 'voids':
        return _arr([b'V'] * n)
    if kind == 'ints':
        return _tbl([(b'k%05d' % i, b'b\x01') for i in range(n)])
    if kind == 'empty-tables':
        return _arr([b'F\x00\x00\x00\x00', b'A\x00\x00\x00\x00'] * (n // 2))
    if kind == 'decimals':
        return _arr([b'D\x02\x00\x00\x01\x3a'] * n)
    if kind == 'timestamps':
        return _arr([b'T' + struct.pack('>Q', 1600000000)] * n)
    if kind == 'bytearrays':
        return _arr([b'x\x00\x00\x00\x01a'] * n)
    if kind == 'nested':
        v = _arr([b'S\x00\x00\x00\x01a'] * (n // 40))
        for _ in range(40):
            v = _arr([v, b'V'])
        return v
    if kind == 'blobs':
        return _arr([b'S' + struct.pack('>I', n * 4) + b'a' * (n * 4),
                     b'x' + struct.pack('>I', n * 4) + b'\xce' * (n * 4)])
    if kind == 'keys':
        return _tbl([(b'%0120d' % i, b't\x01') for i in range(n // 8)])
    raise ValueError(kind)


def scalar_limits():
    """(label, tag + payload) around the limits of what the Python types
    behind the scalar tags can hold."""
    out = []
    dtmax = 253402300799            # 9999-12-31T23:59:59Z in seconds
    stamps = set()
    for centre in (0, 2**31, 2**32, dtmax, dtmax * 1000, (dtmax + 1) * 1000,
                   (dtmax + 1) * 1000000, 2**53, 2**63, 2**64 - 1,
                   86400 * 10**9, 86400 * 10**9 * 1000, 10**15, 10**16,
                   10**17, 10**18):
        for d in (-1001, -1000, -999, -2, -1, 0, 1, 2, 999, 1000, 1001):
            if 0 <= centre + d < 2**64:
                stamps.add(centre + d)
    # every millisecond of the last and the first second around the limit
    stamps.update(range(dtmax * 1000 - 5, (dtmax + 1) * 1000 + 1005))
    for raw in sorted(stamps):
        out.append(('timestamp %d' % raw, b'T' + struct.pack('>Q', raw)))
    for scale in (0, 1, 2, 27, 28, 29, 127, 128, 254, 255):
        for value in (0, 1, -1, 2**31 - 1, -2**31, 10**9, -10**9, 999999999):
            out.append(('decimal scale %d value %d' % (scale, value),
                        b'D' + struct.pack('>Bi', scale, value)))
    for bits in (0x00000000, 0x80000000, 0x00000001, 0x007fffff, 0x00800000,
                 0x7f7fffff, 0x7f800000, 0xff800000, 0x7fc00000, 0x7f800001,
                 0xffc00000, 0x7fffffff, 0xffffffff, 0x3f800000):
        out.append(('float bits %08x' % bits, b'f' + struct.pack('>I', bits)))
    for bits in (0, 1 << 63, 1, 0x000fffffffffffff, 0x0010000000000000,
                 0x7fefffffffffffff, 0x7ff0000000000000, 0xfff0000000000000,
                 0x7ff8000000000000, 0x7ff0000000000001, 0xfff8000000000000,
                 0x7fffffffffffffff, 0xffffffffffffffff):
        out.append(('double bits %016x' % bits,
                    b'd' + struct.pack('>Q', bits)))
    for tag, fmt, vals in ((b'l', '>q', (-2**63, -1, 0, 2**63 - 1)),
                           (b'L', '>Q', (0, 2**63 - 1, 2**63, 2**64 - 1)),
                           (b'i', '>I', (0, 2**31 - 1, 2**31, 2**32 - 1)),
                           (b'I', '>i', (-2**31, -1, 0, 2**31 - 1))):
        for v in vals:
            out.append(('%s %d' % (tag.decode(), v), tag +
                        struct.pack(fmt, v)))
    return out


def tasks(tier, seed=0):
    n = len(krep())
    out = []
    for i, (label, data, fields) in enumerate(krep()):
        full16 = tier == 'thorough' or label in FULL16_QUICK
        for f, (_off, width, _kind) in enumerate(fields):
            if width == 2 and full16:
                for lo in range(0, 65536, 4096):
                    out.append(('rewrite', i, f, lo, lo + 4096))
            else:
                out.append(('rewrite', i, f))
    for i, (label, data, fields) in enumerate(krep()):
        for lo in range(0, len(data), 48):
            out.append(('byte', i, lo, min(len(data), lo + 48)))
    out += [('truncate', i) for i in range(n)]
    if tier == 'thorough':
        out += [('pair', i) for i in range(n)]
    nenv = len(faults.envelopes())
    for e in range(nenv):
        for first in range(len(faults.SMALL_ALPHABET)):
            out.append(('small', e, first))
        out.append(('small', e, -1))
    out += [('shapes', k) for k in range(8)]
    out += [('short',), ('nested-short',), ('hostile-names',),
            ('shaped-nesting',)]
    out += [('scalar-limits', part) for part in range(4)]
    out += [('flag-words',)]
    out += [('siblings', n) for n in ((64, 256, 1024, 2048)
                                      if tier == 'thorough'
                                      else (64, 256, 1024))]
    out += [('large', k) for k in range(len(LARGE_KINDS))]
    out += [('big', k) for k in range(5)]
    return out


def inputs(task, tier, seed=0):
    """Yield (label, data) for one task."""
    kind = task[0]
    if kind == 'byte':
        label, data, _fields = krep()[task[1]]
        for what, mutated in faults.single_byte(data,
                                                range(task[2], task[3])):
            yield label + ' ' + what, mutated
    elif kind == 'pair':
        label, data, fields = krep()[task[1]]
        pos = sorted({p for off, width, _k in fields
                      for p in range(off, off + width)} |
                     set(range(min(7, len(data)))))
        for what, mutated in faults.pairs(data, positions=pos):
            yield label + ' ' + what, mutated
    elif kind == 'rewrite':
        label, data, fields = krep()[task[1]]
        full16 = tier == 'thorough' or label in FULL16_QUICK
        for what, mutated in faults.field_rewrites(
                data, fields[task[2]:task[2] + 1], full16,
                task[3:5] or None):
            yield label + ' ' + what, mutated
    elif kind == 'truncate':
        # payload truncated to every length, envelope size corrected
        label, data, _fields = krep()[task[1]]
        if data[:4] == b'AMQP':
            return
        payload = data[7:-1]
        for k in range(len(payload)):
            yield ('%s payload[:%d]' % (label, k),
                   data[:3] + struct.pack('>I', k) + payload[:k] + b'\xce')
    elif kind == 'small':
        name, wrap = faults.envelopes()[task[1]]
        alphabet = faults.SMALL_ALPHABET
        if task[2] == -1:
            yield name + ' empty', wrap(b'')
            return
        first = bytes([alphabet[task[2]]])
        if tier == 'thorough':
            for rest in faults.strings_upto(alphabet, 4):
                yield name, wrap(first + rest)
        else:
            # all strings <= 3 over the 28 symbols, length 4 over 12 symbols
            for rest in faults.strings_upto(alphabet, 2):
                yield name, wrap(first + rest)
            if first in REDUCED_ALPHABET:
                for rest in itertools.product(REDUCED_ALPHABET, repeat=3):
                    yield name, wrap(first + bytes(rest))
    elif kind == 'shapes':
        for i, (label, data) in enumerate(faults.header_shapes(tier)):
            if i % 8 == task[1]:
                yield label, data
    elif kind == 'nested-short':
        depth = 16 if tier == 'thorough' else 12
        wraps = dict(faults.envelopes())
        for label, body in faults.nested_short(depth):
            yield label + ' (method argument table)', wraps['table-body'](body)
            props = b'\x20\x00' + struct.pack('>I', len(body)) + body
            yield label + ' (headers property)', wraps['header-flags'](props)
    elif kind == 'hostile-names':
        wraps = dict(faults.envelopes())
        for label, body in faults.hostile_names():
            yield label + ' (method argument table)', wraps['table-body'](body)
            props = b'\x20\x00' + struct.pack('>I', len(body)) + body
            yield label + ' (headers property)', wraps['header-flags'](props)
        # hostile text as short-string arguments in front of a failing field
        for name in faults.HOSTILE_TEXT:
            raw = name.encode('utf-8')
            for bad in (b'\x00\x00\x00\x05\x01k?\x00\x00', b'\xff',
                        b'\x00\x00\x00\x02\x01'):
                args = (b'\x00\x00' + bytes([len(raw)]) + raw + b'\x00' + bad)
                yield 'hostile queue name %r' % name, faults.frame_wrap(
                    1, 1, b'\x00\x32\x00\x0a' + args)
    elif kind == 'shaped-nesting':
        wraps = dict(faults.envelopes())
        for label, body in faults.shaped_nesting(32):
            yield label + ' (method argument table)', wraps['table-body'](body)
            props = b'\x20\x00' + struct.pack('>I', len(body)) + body
            yield label + ' (headers property)', wraps['header-flags'](props)
    elif kind == 'flag-words':
        # content headers with k property-flag words chained by the
        # continuation bit (a flat frame, no nesting), followed by L bytes of
        # property data: k and L grow together
        for k in (1, 2, 3, 8, 64, 300, 900, 990, 1100, 3000, 20000):
            for size in (0, 100, 4096, 65536):
                for first in (0x2001, 0x0001, 0xfffd):
                    words = struct.pack('>H', first) + \
                        b'\x00\x01' * (k - 1) + b'\x00\x00'
                    if first == 0xfffd:
                        continue_ = words[:-2] + b'\x00\x01'   # never ends
                        data = faults.frame_wrap(
                            2, 1, b'\x00\x3c\x00\x00' + bytes(8) + continue_)
                        yield 'header with %d flag words, unterminated' % k, \
                            data
                        continue
                    table = b'\x01kS' + struct.pack('>I', size) + b'v' * size
                    props = struct.pack('>I', len(table)) + table \
                        if first == 0x2001 else b''
                    yield ('header with %d flag words and %d bytes of '
                           'property data' % (k, len(props)),
                           faults.frame_wrap(2, 1, b'\x00\x3c\x00\x00' +
                                             bytes(8) + words + props))
    elif kind == 'scalar-limits':
        # every scalar tag whose Python type has limits of its own, with
        # payloads around those limits: well-formed frames all of them - a
        # frame or an UnmarshalingException, within the budgets
        wraps = dict(faults.envelopes())
        for n, (label, vb) in enumerate(scalar_limits()):
            if n % 4 != task[1]:
                continue
            body = b'\x01k' + vb
            yield label + ' (table value)', wraps['table-body'](body)
            arr = b'\x01kA' + struct.pack('>I', len(vb)) + vb
            yield label + ' (array element)', wraps['table-body'](arr)
            props = b'\x20\x00' + struct.pack('>I', len(body)) + body
            yield label + ' (headers property)', wraps['header-flags'](props)
            if vb[:1] == b'T':
                yield label + ' (timestamp property)', wraps['header-flags'](
                    b'\x00\x40' + vb[1:])
    elif kind == 'siblings':
        wraps = dict(faults.envelopes())
        for label, body in faults.sibling_lies(task[1]):
            yield label + ' (method argument table)', wraps['table-body'](body)
            props = b'\x20\x00' + struct.pack('>I', len(body)) + body
            yield label + ' (headers property)', wraps['header-flags'](props)
    elif kind == 'big':
        label, data, fields = kbig()[task[1]]
        yield label + ' intact', data
        for what, mutated in big_rewrites(data, fields):
            yield label + ' ' + what, mutated
        # cut the payload (size corrected) at a sample of points
        payload = data[7:-1]
        for k in sorted(set(range(0, len(payload), 97)) |
                        set(range(max(0, len(payload) - 40), len(payload)))):
            yield ('%s payload[:%d]' % (label, k),
                   data[:3] + struct.pack('>I', k) + payload[:k] + b'\xce')
    elif kind == 'large':
        which = LARGE_KINDS[task[1]]
        wraps = dict(faults.envelopes())
        sizes = (1500, 6000, 12000) if tier == 'thorough' else (1500, 6000)
        for n in sizes:
            body = b'\x01k' + large_values(which, n)
            yield 'large %s x%d (method argument table)' % (which, n), \
                wraps['table-body'](body)
            props = b'\x20\x00' + struct.pack('>I', len(body)) + body
            yield 'large %s x%d (headers property)' % (which, n), \
                wraps['header-flags'](props)
    elif kind == 'short':
        # every byte string of length 0..3 over the sharp alphabet + 'AMQP'
        alpha = bytes(faults.SHARP) + b'AMQP\x02\x03\x08'
        for s in faults.strings_upto(alpha, 3):
            yield 'short', s
