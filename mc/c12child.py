"""Child of C12: one digest over the encodings of a fixed list of values,
computed in an interpreter started with the PYTHONHASHSEED the parent chose
(str hashes - and with them the iteration order of sets and the layout of
dicts - differ from process to process in a default interpreter)."""
import collections
import hashlib
import json
import logging
import sys


def main():
    logging.disable(logging.CRITICAL)
    from mc import alphabets as A
    from mc import lib, values
    p = lib.pamqp()
    digest = hashlib.sha256()
    n = 0
    cases = []
    for task in (('scalars',), ('keys',), ('mixed',), ('deep',)):
        cases.extend(values.values(task, 'quick', 0))
    words = ['alpha', 'beta', 'gamma', 'delta', 'é', 'zz', '', 'a' * 200]
    cases.append({w: i for i, w in enumerate(words)})
    cases.append({w: {v: [v] for v in words} for w in words})
    # collections whose iteration order follows the str hashes
    extra = [set(words), frozenset(words), {w: 1 for w in words}.keys(),
             collections.Counter(words), collections.OrderedDict(
                 (w, 1) for w in words), set(range(40)),
             {(w, 1) for w in words}]
    for v in cases + extra:
        for enc, arg in ((p.encode.encode_table_value, v),
                         (p.encode.field_array, [v]),
                         (p.encode.field_table, {'k': v})):
            n += 1
            try:
                digest.update(enc(arg))
            except Exception as exc:  # noqa
                digest.update(b'refused:' + type(exc).__name__.encode())
    frames = [
        p.commands.Queue.Declare(queue='q', arguments={w: w for w in words}),
        p.header.ContentHeader(0, 1, p.commands.Basic.Properties(
            headers={w: [w] for w in words}, app_id='a')),
        p.commands.Connection.StartOk(client_properties={
            'capabilities': {w: True for w in words}}),
    ]
    for f in frames:
        n += 1
        digest.update(p.frame.marshal(f, 1))
    print(json.dumps({'digest': digest.hexdigest(), 'cases': n}))


if __name__ == '__main__':
    main()
