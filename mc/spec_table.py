"""AMQP 0-9-1 + RabbitMQ extensions, transcribed by hand.

This is the *specification oracle*.  It is data, written from the AMQP 0-9-1
specification, the RabbitMQ extended spec (amqp0-9-1.extended.xml /
amqp-rabbitmq-0.9.1.json) and pamqp's documented naming rules (``-`` -> ``_``,
``type`` -> ``exchange_type``, ``global`` -> ``global_``, ``no-wait`` ->
``nowait``, property ``type`` -> ``message_type``).  It never imports pamqp.

Defaults: the value documented by the library for a constructor default
(``NODEFAULT`` = the spec states none; the library then uses ``None``).
``TABLE`` marks a table argument whose documented default is ``{}``.
"""

NODEFAULT = None


class _Table:
    def __repr__(self):
        return 'TABLE'


TABLE = _Table()

# (class name, class id, [(method name, method id, synchronous, [replies],
#                          [(argument, wire type, default)])])
SPEC = [
    ('Connection', 10, [
        ('Start', 10, True, ['StartOk'], [
            ('version_major', 'octet', 0),
            ('version_minor', 'octet', 9),
            ('server_properties', 'table', TABLE),
            ('mechanisms', 'longstr', 'PLAIN'),
            ('locales', 'longstr', 'en_US')]),
        ('StartOk', 11, False, [], [
            ('client_properties', 'table', TABLE),
            ('mechanism', 'shortstr', 'PLAIN'),
            ('response', 'longstr', ''),
            ('locale', 'shortstr', 'en_US')]),
        ('Secure', 20, True, ['SecureOk'], [
            ('challenge', 'longstr', NODEFAULT)]),
        ('SecureOk', 21, False, [], [
            ('response', 'longstr', NODEFAULT)]),
        ('Tune', 30, True, ['TuneOk'], [
            ('channel_max', 'short', 0),
            ('frame_max', 'long', 0),
            ('heartbeat', 'short', 0)]),
        ('TuneOk', 31, False, [], [
            ('channel_max', 'short', 0),
            ('frame_max', 'long', 0),
            ('heartbeat', 'short', 0)]),
        ('Open', 40, True, ['OpenOk'], [
            ('virtual_host', 'shortstr', '/'),
            ('capabilities', 'shortstr', ''),
            ('insist', 'bit', False)]),
        ('OpenOk', 41, False, [], [
            ('known_hosts', 'shortstr', '')]),
        ('Close', 50, True, ['CloseOk'], [
            ('reply_code', 'short', NODEFAULT),
            ('reply_text', 'shortstr', ''),
            ('class_id', 'short', NODEFAULT),
            ('method_id', 'short', NODEFAULT)]),
        ('CloseOk', 51, False, [], []),
        ('Blocked', 60, False, [], [
            ('reason', 'shortstr', '')]),
        ('Unblocked', 61, False, [], []),
        ('UpdateSecret', 70, True, ['UpdateSecretOk'], [
            ('new_secret', 'longstr', NODEFAULT),
            ('reason', 'shortstr', NODEFAULT)]),
        ('UpdateSecretOk', 71, False, [], []),
    ]),
    ('Channel', 20, [
        ('Open', 10, True, ['OpenOk'], [
            ('out_of_band', 'shortstr', '0')]),
        ('OpenOk', 11, False, [], [
            ('channel_id', 'longstr', '0')]),
        ('Flow', 20, True, ['FlowOk'], [
            ('active', 'bit', NODEFAULT)]),
        ('FlowOk', 21, False, [], [
            ('active', 'bit', NODEFAULT)]),
        ('Close', 40, True, ['CloseOk'], [
            ('reply_code', 'short', NODEFAULT),
            ('reply_text', 'shortstr', ''),
            ('class_id', 'short', NODEFAULT),
            ('method_id', 'short', NODEFAULT)]),
        ('CloseOk', 41, False, [], []),
    ]),
    ('Exchange', 40, [
        ('Declare', 10, True, ['DeclareOk'], [
            ('ticket', 'short', 0),
            ('exchange', 'shortstr', ''),
            ('exchange_type', 'shortstr', 'direct'),
            ('passive', 'bit', False),
            ('durable', 'bit', False),
            ('auto_delete', 'bit', False),
            ('internal', 'bit', False),
            ('nowait', 'bit', False),
            ('arguments', 'table', TABLE)]),
        ('DeclareOk', 11, False, [], []),
        ('Delete', 20, True, ['DeleteOk'], [
            ('ticket', 'short', 0),
            ('exchange', 'shortstr', ''),
            ('if_unused', 'bit', False),
            ('nowait', 'bit', False)]),
        ('DeleteOk', 21, False, [], []),
        ('Bind', 30, True, ['BindOk'], [
            ('ticket', 'short', 0),
            ('destination', 'shortstr', ''),
            ('source', 'shortstr', ''),
            ('routing_key', 'shortstr', ''),
            ('nowait', 'bit', False),
            ('arguments', 'table', TABLE)]),
        ('BindOk', 31, False, [], []),
        ('Unbind', 40, True, ['UnbindOk'], [
            ('ticket', 'short', 0),
            ('destination', 'shortstr', ''),
            ('source', 'shortstr', ''),
            ('routing_key', 'shortstr', ''),
            ('nowait', 'bit', False),
            ('arguments', 'table', TABLE)]),
        ('UnbindOk', 51, False, [], []),
    ]),
    ('Queue', 50, [
        ('Declare', 10, True, ['DeclareOk'], [
            ('ticket', 'short', 0),
            ('queue', 'shortstr', ''),
            ('passive', 'bit', False),
            ('durable', 'bit', False),
            ('exclusive', 'bit', False),
            ('auto_delete', 'bit', False),
            ('nowait', 'bit', False),
            ('arguments', 'table', TABLE)]),
        ('DeclareOk', 11, False, [], [
            ('queue', 'shortstr', NODEFAULT),
            ('message_count', 'long', NODEFAULT),
            ('consumer_count', 'long', NODEFAULT)]),
        ('Bind', 20, True, ['BindOk'], [
            ('ticket', 'short', 0),
            ('queue', 'shortstr', ''),
            ('exchange', 'shortstr', ''),
            ('routing_key', 'shortstr', ''),
            ('nowait', 'bit', False),
            ('arguments', 'table', TABLE)]),
        ('BindOk', 21, False, [], []),
        ('Purge', 30, True, ['PurgeOk'], [
            ('ticket', 'short', 0),
            ('queue', 'shortstr', ''),
            ('nowait', 'bit', False)]),
        ('PurgeOk', 31, False, [], [
            ('message_count', 'long', NODEFAULT)]),
        ('Delete', 40, True, ['DeleteOk'], [
            ('ticket', 'short', 0),
            ('queue', 'shortstr', ''),
            ('if_unused', 'bit', False),
            ('if_empty', 'bit', False),
            ('nowait', 'bit', False)]),
        ('DeleteOk', 41, False, [], [
            ('message_count', 'long', NODEFAULT)]),
        ('Unbind', 50, True, ['UnbindOk'], [
            ('ticket', 'short', 0),
            ('queue', 'shortstr', ''),
            ('exchange', 'shortstr', ''),
            ('routing_key', 'shortstr', ''),
            ('arguments', 'table', TABLE)]),
        ('UnbindOk', 51, False, [], []),
    ]),
    ('Basic', 60, [
        ('Qos', 10, True, ['QosOk'], [
            ('prefetch_size', 'long', 0),
            ('prefetch_count', 'short', 0),
            ('global_', 'bit', False)]),
        ('QosOk', 11, False, [], []),
        ('Consume', 20, True, ['ConsumeOk'], [
            ('ticket', 'short', 0),
            ('queue', 'shortstr', ''),
            ('consumer_tag', 'shortstr', ''),
            ('no_local', 'bit', False),
            ('no_ack', 'bit', False),
            ('exclusive', 'bit', False),
            ('nowait', 'bit', False),
            ('arguments', 'table', TABLE)]),
        ('ConsumeOk', 21, False, [], [
            ('consumer_tag', 'shortstr', NODEFAULT)]),
        ('Cancel', 30, True, ['CancelOk'], [
            ('consumer_tag', 'shortstr', NODEFAULT),
            ('nowait', 'bit', False)]),
        ('CancelOk', 31, False, [], [
            ('consumer_tag', 'shortstr', NODEFAULT)]),
        ('Publish', 40, False, [], [
            ('ticket', 'short', 0),
            ('exchange', 'shortstr', ''),
            ('routing_key', 'shortstr', ''),
            ('mandatory', 'bit', False),
            ('immediate', 'bit', False)]),
        ('Return', 50, False, [], [
            ('reply_code', 'short', NODEFAULT),
            ('reply_text', 'shortstr', ''),
            ('exchange', 'shortstr', ''),
            ('routing_key', 'shortstr', NODEFAULT)]),
        ('Deliver', 60, False, [], [
            ('consumer_tag', 'shortstr', NODEFAULT),
            ('delivery_tag', 'longlong', NODEFAULT),
            ('redelivered', 'bit', False),
            ('exchange', 'shortstr', ''),
            ('routing_key', 'shortstr', NODEFAULT)]),
        ('Get', 70, True, ['GetOk', 'GetEmpty'], [
            ('ticket', 'short', 0),
            ('queue', 'shortstr', ''),
            ('no_ack', 'bit', False)]),
        ('GetOk', 71, False, [], [
            ('delivery_tag', 'longlong', NODEFAULT),
            ('redelivered', 'bit', False),
            ('exchange', 'shortstr', ''),
            ('routing_key', 'shortstr', NODEFAULT),
            ('message_count', 'long', NODEFAULT)]),
        ('GetEmpty', 72, False, [], [
            ('cluster_id', 'shortstr', '')]),
        ('Ack', 80, False, [], [
            ('delivery_tag', 'longlong', 0),
            ('multiple', 'bit', False)]),
        ('Reject', 90, False, [], [
            ('delivery_tag', 'longlong', NODEFAULT),
            ('requeue', 'bit', True)]),
        ('RecoverAsync', 100, False, [], [
            ('requeue', 'bit', False)]),
        ('Recover', 110, True, ['RecoverOk'], [
            ('requeue', 'bit', False)]),
        ('RecoverOk', 111, False, [], []),
        ('Nack', 120, False, [], [
            ('delivery_tag', 'longlong', 0),
            ('multiple', 'bit', False),
            ('requeue', 'bit', True)]),
    ]),
    ('Confirm', 85, [
        ('Select', 10, True, ['SelectOk'], [
            ('nowait', 'bit', False)]),
        ('SelectOk', 11, False, [], []),
    ]),
    ('Tx', 90, [
        ('Select', 10, True, ['SelectOk'], []),
        ('SelectOk', 11, False, [], []),
        ('Commit', 20, True, ['CommitOk'], []),
        ('CommitOk', 21, False, [], []),
        ('Rollback', 30, True, ['RollbackOk'], []),
        ('RollbackOk', 31, False, [], []),
    ]),
]

# Basic content properties in specification order: (name, wire type, flag bit)
PROPERTIES = [
    ('content_type', 'shortstr', 15),
    ('content_encoding', 'shortstr', 14),
    ('headers', 'table', 13),
    ('delivery_mode', 'octet', 12),
    ('priority', 'octet', 11),
    ('correlation_id', 'shortstr', 10),
    ('reply_to', 'shortstr', 9),
    ('expiration', 'shortstr', 8),
    ('message_id', 'shortstr', 7),
    ('timestamp', 'timestamp', 6),
    ('message_type', 'shortstr', 5),
    ('user_id', 'shortstr', 4),
    ('app_id', 'shortstr', 3),
    ('cluster_id', 'shortstr', 2),
]
PROPERTY_DEFAULTS = {name: (None if name != 'cluster_id' else '')
                     for name, _t, _b in PROPERTIES}
BASIC_CLASS_ID = 60

# reply codes: (code, NAME, 'soft' | 'hard')
REPLY_CODES = [
    (311, 'CONTENT-TOO-LARGE', 'soft'),
    (312, 'NO-ROUTE', 'soft'),
    (313, 'NO-CONSUMERS', 'soft'),
    (320, 'CONNECTION-FORCED', 'hard'),
    (402, 'INVALID-PATH', 'hard'),
    (403, 'ACCESS-REFUSED', 'soft'),
    (404, 'NOT-FOUND', 'soft'),
    (405, 'RESOURCE-LOCKED', 'soft'),
    (406, 'PRECONDITION-FAILED', 'soft'),
    (501, 'FRAME-ERROR', 'hard'),
    (502, 'SYNTAX-ERROR', 'hard'),
    (503, 'COMMAND-INVALID', 'hard'),
    (504, 'CHANNEL-ERROR', 'hard'),
    (505, 'UNEXPECTED-FRAME', 'hard'),
    (506, 'RESOURCE-ERROR', 'hard'),
    (530, 'NOT-ALLOWED', 'hard'),
    (540, 'NOT-IMPLEMENTED', 'hard'),
    (541, 'INTERNAL-ERROR', 'hard'),
]

CONSTANTS = {
    'FRAME_METHOD': 1,
    'FRAME_HEADER': 2,
    'FRAME_BODY': 3,
    'FRAME_HEARTBEAT': 8,
    'FRAME_END': 206,
    'FRAME_END_CHAR': b'\xce',
    'FRAME_MIN_SIZE': 4096,
    'FRAME_HEADER_SIZE': 7,
    'VERSION': (0, 9, 1),
    'AMQP': b'AMQP',
}

# ---------------------------------------------------------------------------
# Argument constraints (send side only), from the spec's domain assertions and
# the deprecated/reserved fields.  kind: 'exchange' (<=127 chars + charset),
# 'queue' (<=256 chars + charset), 'vhost' (<=127 chars), ('fixed', value).
NAME_CHARS = ('abcdefghijklmnopqrstuvwxyz'
              'ABCDEFGHIJKLMNOPQRSTUVWXYZ'
              '0123456789'
              '-_.:@#,/ ')

CONSTRAINTS = {
    'Connection.Open': [('virtual_host', 'vhost'),
                        ('capabilities', ('fixed', '')),
                        ('insist', ('fixed', False))],
    'Connection.OpenOk': [('known_hosts', ('fixed', ''))],
    'Channel.Open': [('out_of_band', ('fixed', '0'))],
    'Channel.OpenOk': [('channel_id', ('fixed', '0'))],
    'Exchange.Declare': [('ticket', ('fixed', 0)), ('exchange', 'exchange')],
    'Exchange.Delete': [('ticket', ('fixed', 0)), ('exchange', 'exchange')],
    'Exchange.Bind': [('ticket', ('fixed', 0)), ('destination', 'exchange'),
                      ('source', 'exchange')],
    'Exchange.Unbind': [('ticket', ('fixed', 0)), ('destination', 'exchange'),
                        ('source', 'exchange')],
    'Queue.Declare': [('ticket', ('fixed', 0)), ('queue', 'queue')],
    'Queue.DeclareOk': [('queue', 'queue')],
    'Queue.Bind': [('ticket', ('fixed', 0)), ('queue', 'queue'),
                   ('exchange', 'exchange')],
    'Queue.Purge': [('ticket', ('fixed', 0)), ('queue', 'queue')],
    'Queue.Delete': [('ticket', ('fixed', 0)), ('queue', 'queue')],
    'Queue.Unbind': [('ticket', ('fixed', 0)), ('queue', 'queue'),
                     ('exchange', 'exchange')],
    'Basic.Consume': [('ticket', ('fixed', 0)), ('queue', 'queue')],
    'Basic.Publish': [('ticket', ('fixed', 0)), ('exchange', 'exchange')],
    'Basic.Return': [('exchange', 'exchange')],
    'Basic.Deliver': [('exchange', 'exchange')],
    'Basic.Get': [('ticket', ('fixed', 0)), ('queue', 'queue')],
    'Basic.GetOk': [('exchange', 'exchange')],
    'Basic.GetEmpty': [('cluster_id', ('fixed', ''))],
}
PROPERTY_CONSTRAINTS = [('cluster_id', ('fixed', '')),
                        ('delivery_mode', ('oneof', (1, 2)))]


class Method:
    __slots__ = ('cls', 'class_id', 'meth', 'method_id', 'name', 'index',
                 'sync', 'replies', 'args')

    def __init__(self, cls, class_id, meth, method_id, sync, replies, args):
        self.cls, self.class_id = cls, class_id
        self.meth, self.method_id = meth, method_id
        self.name = '{}.{}'.format(cls, meth)
        self.index = (class_id << 16) | method_id
        self.sync = sync
        self.replies = ['{}.{}'.format(cls, r) for r in replies]
        self.args = args

    def __repr__(self):
        return '<Method {}>'.format(self.name)


METHODS = []
for _cls, _cid, _methods in SPEC:
    for _m, _mid, _sync, _replies, _args in _methods:
        METHODS.append(Method(_cls, _cid, _m, _mid, _sync, _replies, _args))
BY_NAME = {m.name: m for m in METHODS}
BY_INDEX = {m.index: m for m in METHODS}
assert len(METHODS) == 64 and len(BY_INDEX) == 64
