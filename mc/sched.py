"""E3 - exhaustive thread-schedule explorer (iterative context bounding).

Real threading.Thread objects run the harness bodies; every source line
executed inside pamqp/* is a scheduling point (sys.settrace 'line' events).
Threads of one execution never run simultaneously: each thread owns a
semaphore (its baton) and only the thread that was handed the baton runs, so
an execution is a pure function of its choice sequence and the library state
it starts from.  When the library keeps state between executions (a cache),
a recorded prefix may ask for a thread that is no longer enabled: such an
execution is marked `diverged`, finishes with default choices, is judged
like any other and counted, but its subtree is not expanded.

A choice sequence lists, for every scheduling point, the index of the thread
to run next in the canonical order "running thread first (if still enabled),
then ascending ids"; index 0 = no switch.  Switching away from a thread that
is still enabled is a preemption; explore() enumerates every schedule with
at most `bound` preemptions (CHESS-style, stateless, depth-first).
"""
import os
import sys
import threading


class Divergence(BaseException):
    """Replaying a prefix did not meet the same scheduling points."""


def _pamqp_dir():
    import pamqp
    return os.path.dirname(os.path.abspath(pamqp.__file__)) + os.sep


_LOCK_TYPES = (type(threading.Lock()), type(threading.RLock()))
_TLS = threading.local()         # .tid / .runner of a scheduled thread


class CoopLock:
    """Stands in for a threading.Lock / RLock that the LIBRARY created.  A
    scheduled thread that finds it taken does not block in the kernel (its
    holder is suspended by the scheduler and could never release it): it is
    marked blocked, the scheduler runs another enabled thread, and it tries
    again when the lock has been released.  Threads that are not under the
    scheduler use the real lock."""

    def __init__(self, real):
        self._real = real
        self._reentrant = 'RLock' in type(real).__name__
        self._owner = None
        self._count = 0

    def acquire(self, blocking=True, timeout=-1):
        runner = getattr(_TLS, 'runner', None)
        if runner is None:
            return self._real.acquire(blocking, timeout)
        tid = _TLS.tid
        while True:
            if self._owner is None or (self._reentrant and
                                       self._owner == tid):
                self._owner = tid
                self._count += 1
                return True
            if not blocking:
                return False
            runner._block_on(tid, self)

    def release(self):
        runner = getattr(_TLS, 'runner', None)
        if runner is None:
            return self._real.release()
        if self._owner != _TLS.tid and self._reentrant:
            raise RuntimeError('cannot release un-acquired lock')
        self._count -= 1
        if self._count <= 0:
            self._owner, self._count = None, 0
            runner._unblock(self)

    def locked(self):
        return self._owner is not None or (
            hasattr(self._real, 'locked') and self._real.locked())

    def _reset(self):
        self._owner, self._count = None, 0

    __enter__ = acquire

    def __exit__(self, *exc):
        self.release()


def install_coop_locks():
    """Replace every lock object held in a global of a pamqp module, or in an
    attribute of an object / class held there, by a CoopLock.  Returns the
    list of (description, CoopLock)."""
    found = []
    seen = set()

    def swap(holder, key, get, put, where):
        v = get(holder, key)
        if isinstance(v, _LOCK_TYPES):
            c = CoopLock(v)
            try:
                put(holder, key, c)
                found.append((where, c))
            except Exception:  # noqa
                pass
        elif isinstance(v, CoopLock):
            found.append((where, v))

    for name, mod in list(sys.modules.items()):
        if not (name == 'pamqp' or name.startswith('pamqp.')) or mod is None:
            continue
        for g in list(vars(mod)):
            swap(vars(mod), g, dict.get, dict.__setitem__, name + '.' + g)
            obj = vars(mod).get(g)
            if id(obj) in seen or isinstance(obj, (type(sys), CoopLock)):
                continue
            seen.add(id(obj))
            d = getattr(obj, '__dict__', None)
            if isinstance(d, dict):
                for a in list(d):
                    swap(obj, a, getattr, setattr, '%s.%s.%s' % (name, g, a))
            elif d is not None:          # a class: mappingproxy
                for a in list(d):
                    swap(obj, a, lambda o, k: o.__dict__.get(k), setattr,
                         '%s.%s.%s' % (name, g, a))
    return found


class Execution:
    __slots__ = ('choices', 'points', 'results', 'errors', 'diverged')

    def __init__(self):
        self.diverged = False  # the prefix asked for a thread not enabled
        self.choices = []      # chosen index at each point
        self.points = []       # (n_enabled, running_still_enabled, tid)
        self.results = {}      # tid -> body result
        self.errors = {}       # tid -> repr(exception)

    def preemptions_before(self, i):
        n = 0
        for k in range(i):
            if self.points[k][1] and self.choices[k] != 0:
                n += 1
        return n


import dis as _dis
_CALL_OPS = frozenset(_dis.opmap[n] for n in ('CALL', 'CALL_FUNCTION_EX',
                                              'CALL_KW', 'CALL_FUNCTION',
                                              'CALL_METHOD',
                                              'CALL_FUNCTION_KW')
                      if n in _dis.opmap)


class Runner:
    """Runs executions of `bodies` under given choice prefixes.  The worker
    threads are created once and reused for every execution."""

    def __init__(self, bodies, setup=None, teardown=None, max_points=400000,
                 fine=False):
        self.bodies = bodies
        # fine: besides every source line, the instruction after every CALL
        # inside a line is a scheduling point (where CPython looks at the
        # eval breaker and may hand the GIL over: between next(...) and the
        # del in `del d[next(iter(d))]`)
        self.fine = fine
        self.setup, self.teardown = setup, teardown
        self.dir = _pamqp_dir()
        self.max_points = max_points
        self._known = {}
        n = len(bodies)
        # batons: pre-acquired locks used as binary semaphores
        self.batons = [threading.Lock() for _ in range(n)]
        for b in self.batons:
            b.acquire()
        self.done = threading.Lock()
        self.done.acquire()
        self.threads = None
        self.stop = False
        self.ex = None
        self.prefix = ()
        self.alive = set()
        self.failure = []
        self.blocked = {}
        self.deadlock = None
        self.locks = []

    def _is_lib(self, filename):
        r = self._known.get(filename)
        if r is None:
            r = self._known[filename] = os.path.abspath(filename).startswith(
                self.dir)
        return r

    # -- scheduling core (always executed by the thread holding the baton)
    def _pick(self, enabled, running_enabled, tid):
        ex, prefix = self.ex, self.prefix
        i = len(ex.choices)
        if i >= self.max_points:
            raise Divergence('more than %d scheduling points' %
                             self.max_points)
        c = prefix[i] if i < len(prefix) else 0
        if c >= len(enabled):
            # The prefix was recorded on an execution that met other
            # scheduling points: the library's control flow depends on what
            # ran before (a cache being filled, evicted, cleared).  That is
            # not an error by itself; the execution continues with default
            # choices, is marked, and its results are judged all the same.
            ex.diverged = True
            c = 0
        ex.choices.append(c)
        ex.points.append((len(enabled), running_enabled, tid))
        return enabled[c]

    def _point(self, tid):
        alive = self.alive
        if len(alive) == 1:
            enabled = [tid]
        else:
            blocked = self.blocked
            enabled = [tid] + [t for t in sorted(alive)
                               if t != tid and t not in blocked]
        nxt = self._pick(enabled, True, tid)
        if nxt != tid:
            self.batons[nxt].release()
            self.batons[tid].acquire()

    def _block_on(self, tid, lock):
        """tid wants a library lock held by a suspended thread: it is not
        enabled until the lock is released.  Another enabled thread runs;
        with none left the library has deadlocked."""
        self.blocked[tid] = lock
        enabled = [t for t in sorted(self.alive) if t not in self.blocked]
        if not enabled:
            self.deadlock = sorted(self.blocked)
            raise Divergence('deadlock: every live thread waits for a '
                             'library lock')
        nxt = self._pick(enabled, False, tid)
        self.batons[nxt].release()
        self.batons[tid].acquire()

    def _unblock(self, lock):
        for t in [t for t, l in self.blocked.items() if l is lock]:
            del self.blocked[t]

    def _worker(self, tid):
        fine = self.fine
        last = {}            # id(frame) -> (offset of the previous opcode,
        #                       a 'line' event came since)

        def local(frame, event, arg):
            if event == 'line':
                self._point(tid)
                if fine:
                    prev = last.get(id(frame))
                    last[id(frame)] = (prev[0] if prev else None, True)
            elif event == 'opcode':
                key = id(frame)
                prev = last.get(key)
                if prev is not None and prev[0] is not None and \
                        not prev[1] and \
                        frame.f_code.co_code[prev[0]] in _CALL_OPS:
                    self._point(tid)
                last[key] = (frame.f_lasti, False)
            elif event == 'return' and fine:
                last.pop(id(frame), None)
            return local

        def glob(frame, event, arg):
            if event == 'call' and self._is_lib(frame.f_code.co_filename):
                if fine:
                    frame.f_trace_opcodes = True
                    sys.settrace(glob)      # 3.12: re-arm, or no opcode
                return local                # events are delivered
            return None

        _TLS.tid, _TLS.runner = tid, self
        while True:
            self.batons[tid].acquire()          # wait for the baton
            if self.stop:
                return
            ex = self.ex
            try:
                sys.settrace(glob)
                try:
                    ex.results[tid] = self.bodies[tid]()
                except Divergence as exc:
                    self.failure.append(exc)
                except BaseException as exc:  # noqa
                    ex.errors[tid] = repr(exc)
                    ex.results[tid] = ['raised', type(exc).__name__]
                finally:
                    sys.settrace(None)
            finally:
                self.alive.discard(tid)
                self._finish(tid)

    def _finish(self, tid):
        if self.failure:
            self._abort()
        elif self.alive:
            try:
                enabled = [t for t in sorted(self.alive)
                           if t not in self.blocked]
                if not enabled:
                    self.deadlock = sorted(self.blocked)
                    raise Divergence('deadlock: a thread finished holding a '
                                     'library lock others wait for')
                nxt = self._pick(enabled, False, tid)
                self.batons[nxt].release()
            except Divergence as exc:
                self.failure.append(exc)
                self._abort()
        else:
            self.done.release()

    def _abort(self):
        """A divergence: threads that still wait are abandoned (fresh
        batons and threads are made for the next execution)."""
        self.threads = None
        self.stop_old = True
        try:
            self.done.release()
        except RuntimeError:
            pass

    def _ensure_threads(self):
        if self.threads is None:
            n = len(self.bodies)
            self.batons = [threading.Lock() for _ in range(n)]
            for b in self.batons:
                b.acquire()
            self.done = threading.Lock()
            self.done.acquire()
            self.threads = [threading.Thread(target=self._worker, args=(t,),
                                             daemon=True) for t in range(n)]
            for t in self.threads:
                t.start()

    def run(self, prefix):
        self._ensure_threads()
        self.ex = ex = Execution()
        self.prefix = prefix
        self.alive = set(range(len(self.bodies)))
        self.failure = []
        self.blocked = {}
        self.deadlock = None
        if self.setup:
            self.setup()
        # library locks become scheduler-aware (after setup: a cold start
        # has just imported the library anew)
        key = tuple(id(m) for n, m in sorted(sys.modules.items())
                    if n == 'pamqp' or n.startswith('pamqp.'))
        self._runs = getattr(self, '_runs', 0) + 1
        if key != getattr(self, '_lock_key', None) or not self._runs & 255:
            self.locks = install_coop_locks()
            self._lock_key = key
        for _where, lock in self.locks:
            lock._reset()
        try:
            first = self._pick(sorted(self.alive), False, -1)
        except Divergence:
            raise
        self.batons[first].release()
        if not self.done.acquire(timeout=120):
            self.threads = None
            raise Divergence('execution did not finish in 120 s')
        if self.teardown:
            self.teardown()
        if self.failure:
            self.threads = None
            raise self.failure[0]
        return ex

    def close(self):
        if self.threads:
            self.stop = True
            for b in self.batons:
                try:
                    b.release()
                except RuntimeError:
                    pass
            for t in self.threads:
                t.join(5)
            self.threads = None
            self.stop = False


def explore(runner, bound, check, shard=None, max_executions=None):
    """Depth-first enumeration of every schedule with <= bound preemptions.

    check(execution) is called once per schedule.  shard=(k, K) keeps only
    the subtrees whose first *preemptive* deviation is at a point index i
    with i % K == k; executions above that level are visited by shard 0.
    The shards partition the schedule set.  Returns statistics.
    """
    stats = {'executions': 0, 'points': 0, 'max_points': 0,
             'with_preemption': 0, 'capped': False, 'diverged': 0}

    def visit(x):
        stats['executions'] += 1
        stats['points'] += len(x.points)
        stats['max_points'] = max(stats['max_points'], len(x.points))
        if x.preemptions_before(len(x.points)):
            stats['with_preemption'] += 1
        check(x)

    def rec(prefix, mine):
        if max_executions and stats['executions'] >= max_executions:
            stats['capped'] = True
            return
        x = runner.run(prefix)
        if x.diverged or x.choices[:len(prefix)] != list(prefix):
            # judged, but not expanded: its subtree is not the one planned
            stats['diverged'] += 1
            if mine or shard is None or shard[0] == 0:
                visit(x)
            return
        # executions above the first preemptive deviation belong to shard 0
        if mine or shard[0] == 0:
            visit(x)
        cum, acc = [], 0
        for k in range(len(x.points)):
            cum.append(acc)
            if x.points[k][1] and x.choices[k] != 0:
                acc += 1
        for i in range(len(prefix), len(x.points)):
            n_enabled, running_enabled, _tid = x.points[i]
            if n_enabled < 2:
                continue
            cost = cum[i] + (1 if running_enabled else 0)
            if cost > bound:
                continue
            child_mine = mine
            if not mine and running_enabled:
                if i % shard[1] != shard[0]:
                    continue
                child_mine = True
            for alt in range(1, n_enabled):
                rec(x.choices[:i] + [alt], child_mine)

    rec([], shard is None)
    return stats
