"""E3 - exhaustive thread-schedule explorer (iterative context bounding).

Real threading.Thread objects run the harness bodies; every source line
executed inside pamqp/* is a scheduling point (sys.settrace 'line' events).
Threads of one execution never run simultaneously: each thread owns a
semaphore (its baton) and only the thread that was handed the baton runs, so
an execution is a pure function of its choice sequence and the library state
it starts from.  When the library keeps state between executions (a cache),
a recorded prefix may ask for a thread that is no longer enabled: such an
execution is marked `diverged`, finishes with default choices, is judged
like any other and counted, but its subtree is not expanded.

A choice sequence lists, for every scheduling point, the index of the thread
to run next in the canonical order "running thread first (if still enabled),
then ascending ids"; index 0 = no switch.  Switching away from a thread that
is still enabled is a preemption; explore() enumerates every schedule with
at most `bound` preemptions (CHESS-style, stateless, depth-first).
"""
import os
import sys
import threading


class Divergence(BaseException):
    """Replaying a prefix did not meet the same scheduling points."""


def _pamqp_dir():
    import pamqp
    return os.path.dirname(os.path.abspath(pamqp.__file__)) + os.sep


class Execution:
    __slots__ = ('choices', 'points', 'results', 'errors', 'diverged')

    def __init__(self):
        self.diverged = False  # the prefix asked for a thread not enabled
        self.choices = []      # chosen index at each point
        self.points = []       # (n_enabled, running_still_enabled, tid)
        self.results = {}      # tid -> body result
        self.errors = {}       # tid -> repr(exception)

    def preemptions_before(self, i):
        n = 0
        for k in range(i):
            if self.points[k][1] and self.choices[k] != 0:
                n += 1
        return n


class Runner:
    """Runs executions of `bodies` under given choice prefixes.  The worker
    threads are created once and reused for every execution."""

    def __init__(self, bodies, setup=None, teardown=None, max_points=400000):
        self.bodies = bodies
        self.setup, self.teardown = setup, teardown
        self.dir = _pamqp_dir()
        self.max_points = max_points
        self._known = {}
        n = len(bodies)
        # batons: pre-acquired locks used as binary semaphores
        self.batons = [threading.Lock() for _ in range(n)]
        for b in self.batons:
            b.acquire()
        self.done = threading.Lock()
        self.done.acquire()
        self.threads = None
        self.stop = False
        self.ex = None
        self.prefix = ()
        self.alive = set()
        self.failure = []

    def _is_lib(self, filename):
        r = self._known.get(filename)
        if r is None:
            r = self._known[filename] = os.path.abspath(filename).startswith(
                self.dir)
        return r

    # -- scheduling core (always executed by the thread holding the baton)
    def _pick(self, enabled, running_enabled, tid):
        ex, prefix = self.ex, self.prefix
        i = len(ex.choices)
        if i >= self.max_points:
            raise Divergence('more than %d scheduling points' %
                             self.max_points)
        c = prefix[i] if i < len(prefix) else 0
        if c >= len(enabled):
            # The prefix was recorded on an execution that met other
            # scheduling points: the library's control flow depends on what
            # ran before (a cache being filled, evicted, cleared).  That is
            # not an error by itself; the execution continues with default
            # choices, is marked, and its results are judged all the same.
            ex.diverged = True
            c = 0
        ex.choices.append(c)
        ex.points.append((len(enabled), running_enabled, tid))
        return enabled[c]

    def _point(self, tid):
        alive = self.alive
        if len(alive) == 1:
            enabled = [tid]
        else:
            enabled = [tid] + [t for t in sorted(alive) if t != tid]
        nxt = self._pick(enabled, True, tid)
        if nxt != tid:
            self.batons[nxt].release()
            self.batons[tid].acquire()

    def _worker(self, tid):
        def local(frame, event, arg):
            if event == 'line':
                self._point(tid)
            return local

        def glob(frame, event, arg):
            if event == 'call' and self._is_lib(frame.f_code.co_filename):
                return local
            return None

        while True:
            self.batons[tid].acquire()          # wait for the baton
            if self.stop:
                return
            ex = self.ex
            try:
                sys.settrace(glob)
                try:
                    ex.results[tid] = self.bodies[tid]()
                except Divergence as exc:
                    self.failure.append(exc)
                except BaseException as exc:  # noqa
                    ex.errors[tid] = repr(exc)
                    ex.results[tid] = ['raised', type(exc).__name__]
                finally:
                    sys.settrace(None)
            finally:
                self.alive.discard(tid)
                self._finish(tid)

    def _finish(self, tid):
        if self.failure:
            self._abort()
        elif self.alive:
            try:
                nxt = self._pick(sorted(self.alive), False, tid)
                self.batons[nxt].release()
            except Divergence as exc:
                self.failure.append(exc)
                self._abort()
        else:
            self.done.release()

    def _abort(self):
        """A divergence: threads that still wait are abandoned (fresh
        batons and threads are made for the next execution)."""
        self.threads = None
        self.stop_old = True
        try:
            self.done.release()
        except RuntimeError:
            pass

    def _ensure_threads(self):
        if self.threads is None:
            n = len(self.bodies)
            self.batons = [threading.Lock() for _ in range(n)]
            for b in self.batons:
                b.acquire()
            self.done = threading.Lock()
            self.done.acquire()
            self.threads = [threading.Thread(target=self._worker, args=(t,),
                                             daemon=True) for t in range(n)]
            for t in self.threads:
                t.start()

    def run(self, prefix):
        self._ensure_threads()
        self.ex = ex = Execution()
        self.prefix = prefix
        self.alive = set(range(len(self.bodies)))
        self.failure = []
        if self.setup:
            self.setup()
        try:
            first = self._pick(sorted(self.alive), False, -1)
        except Divergence:
            raise
        self.batons[first].release()
        if not self.done.acquire(timeout=120):
            self.threads = None
            raise Divergence('execution did not finish in 120 s')
        if self.teardown:
            self.teardown()
        if self.failure:
            self.threads = None
            raise self.failure[0]
        return ex

    def close(self):
        if self.threads:
            self.stop = True
            for b in self.batons:
                try:
                    b.release()
                except RuntimeError:
                    pass
            for t in self.threads:
                t.join(5)
            self.threads = None
            self.stop = False


def explore(runner, bound, check, shard=None, max_executions=None):
    """Depth-first enumeration of every schedule with <= bound preemptions.

    check(execution) is called once per schedule.  shard=(k, K) keeps only
    the subtrees whose first *preemptive* deviation is at a point index i
    with i % K == k; executions above that level are visited by shard 0.
    The shards partition the schedule set.  Returns statistics.
    """
    stats = {'executions': 0, 'points': 0, 'max_points': 0,
             'with_preemption': 0, 'capped': False, 'diverged': 0}

    def visit(x):
        stats['executions'] += 1
        stats['points'] += len(x.points)
        stats['max_points'] = max(stats['max_points'], len(x.points))
        if x.preemptions_before(len(x.points)):
            stats['with_preemption'] += 1
        check(x)

    def rec(prefix, mine):
        if max_executions and stats['executions'] >= max_executions:
            stats['capped'] = True
            return
        x = runner.run(prefix)
        if x.diverged or x.choices[:len(prefix)] != list(prefix):
            # judged, but not expanded: its subtree is not the one planned
            stats['diverged'] += 1
            if mine or shard is None or shard[0] == 0:
                visit(x)
            return
        # executions above the first preemptive deviation belong to shard 0
        if mine or shard[0] == 0:
            visit(x)
        cum, acc = [], 0
        for k in range(len(x.points)):
            cum.append(acc)
            if x.points[k][1] and x.choices[k] != 0:
                acc += 1
        for i in range(len(prefix), len(x.points)):
            n_enabled, running_enabled, _tid = x.points[i]
            if n_enabled < 2:
                continue
            cost = cum[i] + (1 if running_enabled else 0)
            if cost > bound:
                continue
            child_mine = mine
            if not mine and running_enabled:
                if i % shard[1] != shard[0]:
                    continue
                child_mine = True
            for alt in range(1, n_enabled):
                rec(x.choices[:i] + [alt], child_mine)

    rec([], shard is None)
    return stats
