"""Argument-vector and frame corpora built from the spec table + alphabets.

Everything here is reference-side: vectors are plain Python values in spec
order; wire frames come from refcodec.  pamqp is only touched through
`construct` / `lib_class`, which go through the public catalogue.
"""
import itertools

from mc import alphabets as A
from mc import refcodec, spec_table


_THOROUGH = False
EXTRA = {
    'octet': [2, 126, 254],
    'short': [2, 257, 65534],
    'long': [2, 2**24, 2**31 + 1, 2**32 - 2],
    'longlong': [2, 2**31, 2**40, 2**62],
    'shortstr': ['a' * 254, 'ß' * 100, ' ', '\x7f', 'A'],
    'longstr': ['x' * 4096, 'é' * 129],
}


def set_tier(tier):
    """thorough widens the per-type alphabets (and so every full product)."""
    global _THOROUGH
    _THOROUGH = tier == 'thorough'


def arg_domain(method, name, wire_type, wide=False):
    """Spec-valid alphabet of one argument, simplest first."""
    base = _arg_domain(method, name, wire_type, wide)
    if _THOROUGH and len(base) > 1 and wire_type in EXTRA:
        constrained = any(c == name for c, _k in
                          spec_table.CONSTRAINTS.get(method.name, []))
        if not constrained:
            base = base + [v for v in EXTRA[wire_type] if v not in base]
    return base


def _arg_domain(method, name, wire_type, wide=False):
    for cname, kind in spec_table.CONSTRAINTS.get(method.name, []):
        if cname != name:
            continue
        if isinstance(kind, tuple) and kind[0] == 'fixed':
            return [kind[1]]
        if kind == 'exchange':
            return list(A.EXCHANGE_NAMES)
        if kind == 'queue':
            return list(A.QUEUE_NAMES)
        if kind == 'vhost':
            return list(A.VHOSTS)
    if wire_type == 'bit':
        return [False, True]
    if wire_type == 'octet':
        return list(A.OCTET)
    if wire_type == 'short':
        return list(A.SHORT)
    if wire_type == 'long':
        return list(A.LONG)
    if wire_type == 'longlong':
        return list(A.LONGLONG) + (list(A.LONGLONG_NEG) if wide else [])
    if wire_type == 'shortstr':
        return list(A.SHORTSTR) + (list(A.LOOKALIKES) if wide else [])
    if wire_type == 'longstr':
        return list(A.LONGSTR) + (list(A.LOOKALIKES) if wide else [])
    if wire_type == 'table':
        return list(A.TABLES)
    if wire_type == 'timestamp':
        return list(A.TIMESTAMPS)
    raise ValueError(wire_type)


def default_vector(method):
    """The all-default (trivial) vector: spec default or simplest value."""
    out = []
    for name, wire_type, default in method.args:
        dom = arg_domain(method, name, wire_type)
        if default is spec_table.TABLE:
            out.append(None)
        elif default is None or default not in dom:
            out.append(dom[0])
        else:
            out.append(default)
    return out


def domains(method, wide=False):
    doms = []
    base = default_vector(method)
    for (name, wire_type, _d), dflt in zip(method.args, base):
        dom = arg_domain(method, name, wire_type, wide)
        # default first, then the rest in alphabet order
        rest = [v for v in dom if not _same(v, dflt)]
        doms.append([dflt] + rest)
    return doms


def _same(a, b):
    return type(a) is type(b) and a == b


def full_vectors(method, wide=False):
    """Full cartesian product; index 0 is the default vector."""
    return itertools.product(*domains(method, wide))


def count_full(method):
    n = 1
    for d in domains(method):
        n *= len(d)
    return n


def dev_vectors(method, max_dev=2, wide=False):
    """All vectors with <= max_dev non-default coordinates."""
    doms = domains(method, wide)
    n = len(doms)
    base = [d[0] for d in doms]
    yield tuple(base)
    for k in range(1, max_dev + 1):
        for positions in itertools.combinations(range(n), k):
            alts = [doms[p][1:] for p in positions]
            for choice in itertools.product(*alts):
                v = list(base)
                for p, c in zip(positions, choice):
                    v[p] = c
                yield tuple(v)


def nondefault_vector(method):
    """One vector with every argument away from its default (K_rep)."""
    out = []
    for dom in domains(method):
        out.append(dom[min(2, len(dom) - 1)] if len(dom) > 1 else dom[0])
    # table arguments: the rich table for three classes, compact ones for
    # the rest (keeps the corruption spaces of K_rep small)
    for i, (_n, wire_type, _d) in enumerate(method.args):
        if wire_type == 'table':
            if method.name in ('Connection.Start', 'Queue.Declare',
                               'Basic.Consume'):
                out[i] = A.rich_table()
            else:
                out[i] = REP_TABLES[method.index % len(REP_TABLES)]
    return tuple(out)


REP_TABLES = [
    {'a': [1, {'b': 'x'}], 'k': A.D('-1.5'), 't': A.dt(1600000000)},
    {'x-max-length': 70000, 'flag': True, 'n': None, 'f': 1.5},
    {'é': bytearray(b'\x00\xce'), 'neg': -129, 'big': 2**40,
     'arr': [[], {}]},
    A.deep_table(4),
]


def is_default(method, vec):
    return all(_same(a, b) for a, b in zip(vec, default_vector(method)))


# ---------------------------------------------------------------------------
# Library side (public API only)


def lib_class(method):
    from pamqp import commands
    return commands.INDEX_MAPPING[method.index]


def lib_class_by_name(method):
    from pamqp import commands
    return getattr(getattr(commands, method.cls), method.meth)


def construct(method, vec):
    cls = lib_class_by_name(method)
    kwargs = {name: v for (name, _t, _d), v in zip(method.args, vec)}
    return cls(**kwargs)


# ---------------------------------------------------------------------------
# Content headers


def prop_value_domain(name, wire_type):
    if name == 'delivery_mode':
        return [1, 2]
    if name == 'priority':
        return [0, 1, 2, 9, 255] + ([v for v in range(256) if v not in
                                     (0, 1, 2, 9, 255)] if DENSE_PROPS
                                    else [])
    if name == 'cluster_id':
        return ['']
    if wire_type == 'shortstr':
        return ['a', 'é', '€', '\U0001F600', 'Ύ', 'AMQP', 'a' * 255,
                'é' * 127 + 'a', 'text/plain']
    if wire_type == 'table':
        return list(A.HEADER_TABLES)
    if wire_type == 'timestamp':
        return list(A.TIMESTAMPS)
    if wire_type == 'octet':
        return list(A.OCTET)
    raise ValueError(wire_type)


DENSE_PROPS = False
SETTABLE = [p for p in spec_table.PROPERTIES if p[0] != 'cluster_id']


def props_for_subset(mask, alt=None):
    """Property dict for a 13-bit presence mask with representative values.
    alt: optional {name: value} overriding representatives."""
    out = {}
    for i, (name, wire_type, _bit) in enumerate(SETTABLE):
        if mask & (1 << i):
            out[name] = prop_value_domain(name, wire_type)[0]
    if alt:
        out.update(alt)
    return out


# ---------------------------------------------------------------------------
# Representative frame corpus (K_rep) with field maps


def k_rep(include_big=False):
    """[(label, bytes, fields)] reference-encoded frames of all five kinds."""
    out = []
    for m in spec_table.METHODS:
        vec = nondefault_vector(m)
        data, fields = refcodec.enc_method_frame(m, vec, 1)
        out.append(('method:' + m.name, data, fields))
    full = props_for_subset(0x1FFF)
    full['headers'] = A.rich_table()
    headers = [
        ({}, 0), (full, 2**63 - 1), ({'content_type': 'a'}, 1),
        ({'headers': A.deep_table(8)}, 10), ({'app_id': 'x'}, 2**64 - 1),
        ({'delivery_mode': 2, 'priority': 9}, 5),
        ({'timestamp': A.dt(2**32 - 1)}, 7),
        ({'headers': {'k': [1, [2, [3, {'z': None}]]]}}, 3),
        ({'message_id': 'é' * 127 + 'a', 'user_id': 'guest'}, 65536),
        ({'headers': A.deep_table(64)}, 1),
        ({'headers': {}}, 4),
        ({'expiration': '60000', 'reply_to': 'amq.rabbitmq.reply-to'}, 9),
    ]
    for i, (props, size) in enumerate(headers):
        data, fields = refcodec.enc_header_frame(size, props, 1)
        out.append(('header:%d' % i, data, fields))
    bodies = [b'', b'\xce', b'AMQP\x00\x00\x09\x01', refcodec.HEARTBEAT, b'\x00',
              b'\x01\x00\x01\x00\x00\x00\x04\x00\x3c\x00\x50\xce',
              bytes(range(256))]
    for i, b in enumerate(bodies):
        data, fields = refcodec.enc_body_frame(b, 1)
        out.append(('body:%d' % i, data, fields))
    for ch in (0, 5):
        data, fields = refcodec.enc_heartbeat_frame(ch)
        out.append(('heartbeat:%d' % ch, data, fields))
    out.append(('protocol', refcodec.enc_protocol_header(0, 9, 1), []))
    return out


def k_seq():
    """15 adversarial frames (>= 2 per kind) for sequence exploration."""
    M = spec_table.BY_NAME
    out = []

    def add(label, pair):
        out.append((label, pair[0]))

    add('m:Basic.Ack', refcodec.enc_method_frame(M['Basic.Ack'], (5, True), 1))
    add('m:Tx.Select', refcodec.enc_method_frame(M['Tx.Select'], (), 65535))
    add('m:Basic.Publish', refcodec.enc_method_frame(
        M['Basic.Publish'], (0, 'AMQP', 'ΎΎ', True, False), 2))
    add('m:Queue.Declare', refcodec.enc_method_frame(
        M['Queue.Declare'], (0, 'q', False, True, False, True, False,
                             {'x': bytearray(b'\xce\x08\x00'), 'a': [1, -1]}),
        256))
    add('h:empty', refcodec.enc_header_frame(0, {}, 1))
    add('h:full', refcodec.enc_header_frame(
        2**32, {'content_type': 'AMQP', 'headers': {'k': '\xce'},
                'delivery_mode': 2, 'timestamp': A.dt(1)}, 2))
    # a content header of a foreign class on the channel of the Publish
    add('h:class50', refcodec.enc_header_frame(
        7, {'content_type': 'x'}, 2, class_id=50))
    add('b:ce', refcodec.enc_body_frame(b'\xce', 1))
    add('b:hb', refcodec.enc_body_frame(refcodec.HEARTBEAT, 1))
    add('b:amqp', refcodec.enc_body_frame(b'AMQP\x00\x00\x09\x01', 7))
    add('b:hdr', refcodec.enc_body_frame(b'\x01\x00\x01\x00\x00\x00\x04', 1))
    add('b:empty', refcodec.enc_body_frame(b'', 9))
    add('hb:0', refcodec.enc_heartbeat_frame(0))
    add('hb:5', refcodec.enc_heartbeat_frame(5))
    out.append(('p:091', refcodec.enc_protocol_header(0, 9, 1)))
    out.append(('p:255', refcodec.enc_protocol_header(255, 206, 8)))
    return out


# ---------------------------------------------------------------------------
# Task partition of the method-frame space (shared by C01, C04, C07, C19 ...)

CHUNK = 1500


def method_tasks(tier):
    """[(method name, start, stop)] covering each class's full product."""
    out = []
    for m in spec_table.METHODS:
        n = count_full(m)
        for start in range(0, n, CHUNK):
            out.append((m.name, start, min(n, start + CHUNK)))
    return out


def method_cases(task, tier, seed=0):
    """Yield (method, vec, channel, index) for one task.

    quick: every vector of the full product on a channel that cycles through
    the channel alphabet with the vector index (so each channel meets every
    class), plus all <=1-deviation vectors on all channels.
    thorough: every vector x every channel; additionally vectors with the
    library-accepted negative longlongs.
    """
    name, start, stop = task
    m = spec_table.BY_NAME[name]
    chans = A.CHANNEL
    vecs = itertools.islice(full_vectors(m), start, stop)
    for i, vec in enumerate(vecs, start):
        if tier == 'thorough':
            for ch in chans:
                yield m, vec, ch, i
        else:
            yield m, vec, chans[(i + seed) % len(chans)], i
    if start == 0:
        for j, vec in enumerate(dev_vectors(m, 1, wide=True)):
            for ch in chans:
                yield m, vec, ch, -1 - j
        # seeded interior representative: one vector whose integer arguments
        # are interior values picked from the seed
        import random
        rnd = random.Random(seed * 1000003 + m.index)
        vec = list(default_vector(m))
        limits = {'octet': 255, 'short': 65535, 'long': 2**32 - 1,
                  'longlong': 2**63 - 1}
        for k, (an, wt, _d) in enumerate(m.args):
            if wt in limits and len(arg_domain(m, an, wt)) > 1:
                vec[k] = rnd.randint(0, limits[wt])
            elif wt == 'bit' and len(arg_domain(m, an, wt)) > 1:
                vec[k] = bool(rnd.getrandbits(1))
        yield m, tuple(vec), rnd.choice(chans), -1000000


# ---------------------------------------------------------------------------
# Content-header space (shared by C02, C04, C07, C19)

NSET = len(SETTABLE)   # 13


def _others_subsets(idx, tier):
    """Presence masks over the 12 other settable properties."""
    others = [i for i in range(NSET) if i != idx]
    if tier == 'thorough':
        sizes = range(len(others) + 1)
    else:
        sizes = [0, 1, 2, len(others) - 2, len(others) - 1, len(others)]
    for k in sizes:
        for combo in itertools.combinations(others, k):
            mask = 0
            for i in combo:
                mask |= 1 << i
            yield mask


def header_tasks(tier):
    out = [('subsets', s, s + 512) for s in range(0, 1 << NSET, 512)]
    out += [('dense-props',)]
    out += [('alts', i) for i in range(NSET)]
    out += [('pairs', i) for i in range(NSET)]
    out += [('unset',), ('sizes',), ('lookalikes',)]
    out += [('dense-sizes', lo) for lo in range(0, 70000, 10000)]
    out += [('dense-channels', lo) for lo in range(0, 65536, 8192)]
    return out


def header_cases(task, tier, seed=0):
    """Yield (props dict, body_size, channel) for one task."""
    sizes, chans = A.BODY_SIZE, A.CHANNEL
    kind = task[0]
    if kind == 'subsets':
        for mask in range(task[1], task[2]):
            yield (props_for_subset(mask),
                   sizes[(mask + seed) % len(sizes)],
                   chans[(mask // 7 + seed) % len(chans)])
    elif kind == 'dense-props':
        # interior values: every priority, every string length 0..255 for
        # every string property, timestamps at every power of two +-1
        for v in range(256):
            yield {'priority': v}, v, v
            yield {'priority': v, 'delivery_mode': 1 + v % 2,
                   'app_id': 'a' * (v % 17)}, 1, 1
        strs = [n for n, t, _b in SETTABLE if t == 'shortstr']
        for n in range(0, 256):
            name = strs[n % len(strs)]
            yield {name: 'x' * n}, n, 1
            other = strs[(n + 3) % len(strs)]
            yield {name: 'é' * (n // 2), other: 'y' * (255 - n)}, 2, 2
        for k in range(0, 32):
            for d in (-1, 0, 1):
                t = 2**k + d
                if 0 <= t <= 2**32 - 1:
                    yield {'timestamp': A.dt(t)}, t, 3
        for n in range(0, 200):
            yield {'headers': {'k%03d' % i: 'v' * i for i in range(n)}}, n, 4
        # content headers larger than the default maximum frame size (a
        # larger frame-max can be negotiated)
        for n in (131000, 131073, 200000):
            yield {'headers': {'blob': 'v' * n}}, n, 5
            yield {'headers': {'k': ['v' * (n // 2), bytearray(n // 2)]},
                   'app_id': 'big'}, n, 5
    elif kind == 'lookalikes':
        # every string property x every string a helpful library might tidy
        # (alone, and with every other property set)
        strs = [n for n, t, _b in SETTABLE if t == 'shortstr']
        full = props_for_subset((1 << NSET) - 1)
        for k, text in enumerate(A.LOOKALIKES):
            for name in strs:
                yield {name: text}, k, 1
                yield dict(full, **{name: text}), k, 2
            yield {'headers': {text: text, 'k': [text, {text: text}]}}, k, 3
    elif kind == 'dense-sizes':
        lo = task[1]
        for size in range(lo, lo + 10000):
            yield ({'delivery_mode': 2} if size & 1 else {}), size, 1
        if lo == 0:
            for k in range(16, 65):
                for d in range(-64, 65):
                    if 0 <= 2**k + d < 2**64:
                        yield {'priority': k}, 2**k + d, 2
    elif kind == 'dense-channels':
        for ch in range(task[1], task[1] + 8192):
            yield ({'app_id': 'c'} if ch % 3 == 0 else {}), ch, ch
    elif kind == 'alts':
        idx = task[1]
        name, wire_type, _b = SETTABLE[idx]
        for j, alt in enumerate(prop_value_domain(name, wire_type)):
            for mask in _others_subsets(idx, tier):
                yield (props_for_subset(mask | (1 << idx), {name: alt}),
                       sizes[(mask + j) % len(sizes)],
                       chans[(mask + j) % len(chans)])
    elif kind == 'pairs':
        i = task[1]
        n1, t1, _ = SETTABLE[i]
        for k in range(i + 1, NSET):
            n2, t2, _ = SETTABLE[k]
            d1 = prop_value_domain(n1, t1)
            d2 = prop_value_domain(n2, t2)
            if tier != 'thorough':
                d1, d2 = d1[:4], d2[:4]
            for a in d1:
                for b in d2:
                    for base in (0, (1 << NSET) - 1):
                        yield (props_for_subset(
                            base | (1 << i) | (1 << k), {n1: a, n2: b}),
                            1, 1)
    elif kind == 'unset':
        # '' is the documented spelling of "unset" for string properties
        strs = [i for i, (n, t, _b) in enumerate(SETTABLE) if t == 'shortstr']
        for i in strs:
            name = SETTABLE[i][0]
            for mask in _others_subsets(i, 'quick'):
                props = props_for_subset(mask)
                props[name] = ''
                yield props, 3, 2
        props = {SETTABLE[i][0]: '' for i in strs}
        yield props, 0, 0
        yield {'cluster_id': ''}, 0, 0
        yield {'headers': {}}, 0, 0     # an empty table is *set*
    elif kind == 'sizes':
        full = props_for_subset((1 << NSET) - 1)
        for s in sizes:
            for ch in chans:
                yield {}, s, ch
                yield dict(full), s, ch
        import random
        rnd = random.Random(seed)
        for _ in range(8):
            yield ({'priority': rnd.randint(0, 255)},
                   rnd.randint(0, 2**64 - 1), rnd.randint(0, 65535))


def construct_header(props, body_size):
    import pamqp.commands
    import pamqp.header
    return pamqp.header.ContentHeader(
        0, body_size, pamqp.commands.Basic.Properties(**props))


# ---------------------------------------------------------------------------
# Non-initial states: operations that fail part-way.  Checks call disturb()
# between cases so that accepted inputs are also explored right after a
# refused encode / a failed decode (retained scratch state would show).

def _bad_header():
    # content header: content_type 'evil/thing' decodes, then the headers
    # table holds an unknown type tag -> fails after one property was read
    props = (b'\xa0\x00' + b'\x0aevil/thing' +
             b'\x00\x00\x00\x04\x01k?\x00')
    payload = b'\x00\x3c\x00\x00' + b'\x00' * 7 + b'\x09' + props
    return (b'\x02\x00\x01' + len(payload).to_bytes(4, 'big') + payload +
            b'\xce')


def _bad_method():
    # Queue.Declare: queue 'stale-q', the bits and one table entry decode,
    # then the arguments table holds an unknown type tag
    args = (b'\x00\x00' + b'\x07stale-q' + b'\x1f' +
            b'\x00\x00\x00\x09\x01kb\x05\x01z?\x00\x00')
    payload = b'\x00\x32\x00\x0a' + args
    return (b'\x01\x00\x01' + len(payload).to_bytes(4, 'big') + payload +
            b'\xce')


_BAD_FRAMES = [_bad_header(), _bad_method(),b'\x01\x00\x01\x00\x00\x00\x05\x00\x32\x00\x0a\x00\xce',
               b'\x02\x00\x01\x00\x00\x00\x0f\x00\x3c\x00\x00' + b'\x00' * 8 +
               b'\x80\x00\x05\xce',
               b'\x01\x00\x01\x00\x00\x00\x0c\x00\x32\x00\x0a\x00\x00\x01q'
               b'\x00\x00\x00\xce']


def _mid_failures():
    """Inputs that are refused *in the middle* of a container, after earlier
    members of the same container (and of the enclosing ones) were handled:
    encode side as Python values, decode side as frames."""
    import datetime
    import decimal
    bads = [b'bytes', 2 ** 64,
            datetime.datetime(1969, 1, 1, tzinfo=datetime.timezone.utc)]
    enc = []
    for i, bad in enumerate(bads):
        enc += [
            {'a': 1, 'b': 'stale-b', 'z': bad},
            {'a': [1, 'stale-el', bad], 'b': 2},
            {'a': 'stale-a', 'm': {'in': 'stale-in', 'z': bad}},
            {'a': [['stale-deep', i, bad]], 'k': {'l': [{'p': 1, 'q': bad}]}},
            {'first': bad, 'later': 'x'},
        ]
    dec = []
    for tail in (b'\x01z?', b'\x01zA\x00\x00\x00\x07b\x01b\x02?\x00\x00',
                 b'\x01zF\x00\x00\x00\x09\x01pb\x01\x01q?\x00\x00',
                 b'\x01zA\x00\x00\x00\x0cA\x00\x00\x00\x07b\x01b\x02?\x00'
                 b'\x00', b'\x01zS\x00\x00\x00\x02\xff\xfe\x01yT\xff\xff'
                 b'\xff\xff\xff\xff\xff\xff'):
        table = b'\x05staleS\x00\x00\x00\x05stale\x01kb\x05' + tail
        args = (b'\x00\x00' + b'\x07stale-q' + b'\x1f' +
                len(table).to_bytes(4, 'big') + table)
        payload = b'\x00\x32\x00\x0a' + args
        dec.append(b'\x01\x00\x01' + len(payload).to_bytes(4, 'big') +
                   payload + b'\xce')
        props = (b'\xa0\x00' + b'\x0aevil/thing' +
                 len(table).to_bytes(4, 'big') + table)
        payload = b'\x00\x3c\x00\x00' + b'\x00' * 7 + b'\x09' + props
        dec.append(b'\x02\x00\x01' + len(payload).to_bytes(4, 'big') +
                   payload + b'\xce')
    return enc, dec


_MID = []


def disturb_mid():
    """Refused encodes and failed decodes that stop in the middle of a
    (nested) container - run, exceptions ignored."""
    import pamqp.commands as c
    import pamqp.encode as e
    import pamqp.frame as f
    import pamqp.header as h
    if not _MID:
        _MID.extend(_mid_failures())
    enc, dec = _MID
    for t in enc:
        for attempt in (
                lambda: f.marshal(c.Queue.Declare(queue='q', arguments=t), 1),
                lambda: f.marshal(h.ContentHeader(0, 1, c.Basic.Properties(
                    app_id='stale', headers=t)), 1),
                lambda: e.field_array([0, 'stale', t])):
            try:
                attempt()
            except Exception:  # noqa
                pass
    for data in dec:
        try:
            f.unmarshal(data)
        except Exception:  # noqa
            pass


def beyond_domain(values):
    """True when some table / array among the values nests deeper than the
    depth every implementation must handle: refusing it is legitimate."""
    return any(A.nesting(v) > A.MAX_DEPTH for v in values
               if isinstance(v, (dict, list)))


DISTURBED = False     # set by a check right after disturb(); see case_mark


def case_mark(case):
    """Record in a replayable case whether it ran right after disturb()."""
    global DISTURBED
    if DISTURBED:
        case['after_disturb'] = True
        DISTURBED = False
    return case


def replay_prepare(case):
    if case.get('after_disturb'):
        disturb()


def disturb():
    """Run a fixed set of failing operations, ignoring their exceptions."""
    import pamqp.commands as c
    import pamqp.frame as f
    import pamqp.header as h
    attempts = (
        lambda: f.marshal(c.Connection.Tune(10, 2**32, 5), 1),
        lambda: f.marshal(c.Queue.Bind(queue='q', exchange='e',
                                       arguments={'k': object()}), 1),
        lambda: f.marshal(c.Basic.Deliver('tag', 2**70), 1),
        lambda: f.marshal(h.ContentHeader(0, 1, c.Basic.Properties(
            content_type='x', priority=999)), 1),
        lambda: c.Exchange.Declare(exchange='bad*name'),
        lambda: f.unmarshal(_BAD_FRAMES[2]),
        lambda: f.unmarshal(_BAD_FRAMES[3]),
        lambda: f.unmarshal(_BAD_FRAMES[4]),
        # last: the two decodes that fail after part of the frame was read
        lambda: f.unmarshal(_BAD_FRAMES[1]),
        lambda: f.unmarshal(_BAD_FRAMES[0]),
    )
    for attempt in attempts:
        try:
            attempt()
        except Exception:  # noqa
            pass
    disturb_mid()


# ---------------------------------------------------------------------------
# Dense sweeps: interior values, every length / count / value of a range (not
# only the boundaries), one representative argument per wire type.

DENSE_KINDS = ['octet', 'short', 'long', 'longlong', 'shortstr-ascii',
               'shortstr-2byte', 'shortstr-mixed', 'longstr', 'table-count',
               'table-strlen', 'table-keylen', 'table-depth', 'array-count',
               'channel']


def _around(points, radius):
    out = set()
    for p in points:
        out.update(range(max(0, p - radius), p + radius + 1))
    return sorted(out)


def dense_tasks(tier):
    out = []
    for kind in DENSE_KINDS:
        if kind == 'short' or kind == 'channel':
            out += [(kind, lo, lo + 8192) for lo in range(0, 65536, 8192)]
        else:
            out.append((kind, 0, 0))
    return out


def dense_cases(task, tier):
    """Yield (method, vec, channel) for one dense task."""
    kind, lo, hi = task
    M = spec_table.BY_NAME
    thorough = tier == 'thorough'
    if kind == 'octet':
        m = M['Connection.Start']
        for v in range(256):
            for w in (0, 255 - v):
                yield m, (v, w, None, 'PLAIN', 'en_US'), 0
    elif kind == 'short':
        m = M['Connection.Tune']
        for v in range(lo, hi):
            yield m, (v, 0, 65535 - v), 1
    elif kind == 'channel':
        m = M['Basic.Ack']
        for ch in range(lo, hi):
            yield m, (ch, ch % 2 == 0), ch
    elif kind == 'long':
        m = M['Connection.Tune']
        dense = 300000 if thorough else 70000
        for v in list(range(0, dense)) + _around(
                [2**k for k in range(17, 33)], 40):
            if v <= 2**32 - 1:
                yield m, (0, v, 0), 1
    elif kind == 'longlong':
        m = M['Basic.Ack']
        dense = 300000 if thorough else 70000
        for v in list(range(0, dense)) + _around(
                [2**k for k in range(17, 64)], 20):
            if v <= 2**63 - 1:
                yield m, (v, False), 1
    elif kind == 'shortstr-ascii':
        m = M['Basic.Publish']
        for n in range(0, 256):
            yield m, (0, '', 'r' * n, n % 2 == 0, n % 3 == 0), 1
    elif kind == 'shortstr-2byte':
        m = M['Basic.Publish']
        for n in range(0, 128):
            yield m, (0, '', 'é' * n, False, False), 1
            yield m, (0, '', 'a' + 'é' * n, False, False), 1
        for n in range(0, 86):
            yield m, (0, '', '€' * n, False, False), 1
        for n in range(0, 64):
            yield m, (0, '', '\U0001F600' * n, False, False), 1
    elif kind == 'shortstr-mixed':
        m = M['Queue.Bind']
        # three strings of a frame together: every total split of 0..40
        for a in range(0, 41, 1):
            for b in (0, 1, 7, 8, 9, 31, 32, 33):
                yield m, (0, 'q' * a, 'e' * b, 'k' * ((a * 7 + b) % 61),
                          False, None), 1
    elif kind == 'longstr':
        m = M['Connection.SecureOk']
        lengths = list(range(0, 1100)) + _around(
            [2**k for k in range(11, 18)], 12) + [100000, 131064, 131072,
                                                  131073, 150000, 300000]
        if thorough:
            lengths += list(range(1100, 9000, 7))
        for n in lengths:
            yield m, ('s' * n,), 1
        for n in list(range(0, 300)):
            yield m, ('é' * n,), 1
        # alignment sweep: multi-byte characters at every byte alignment,
        # in strings that cross the usual block sizes (4 KiB, 8 KiB, 64 KiB)
        for ch_, width in (('é', 2), ('€', 3), ('\U0001F600', 4)):
            for prefix in range(0, width + 1):
                for total in (4096, 8192, 65536):
                    k = total // width + 8
                    yield m, ('x' * prefix + ch_ * k,), 1
                    yield m, ('x' * prefix + ch_ * (k // 2) + 'tail',), 1
        for prefix in range(4080, 4100):
            yield m, ('a' * prefix + '\U0001F600' + 'z' * 20,), 1
            yield m, ('a' * prefix + '€é' + 'z' * 20,), 1
    elif kind == 'table-count':
        m = M['Queue.Declare']
        top = 1200 if thorough else 400
        for n in range(0, top):
            t = {'k%04d' % i: i for i in range(n)}
            yield m, (0, 'q', False, False, False, False, False, t), 1
        # the same one and two levels down, to several KiB (many small
        # entries, not one big string)
        for n in range(0, 3000 if thorough else 1000, 7):
            inner = {'k%04d' % i: (i if i % 3 else 'v%d' % i)
                     for i in range(n)}
            yield m, (0, 'q', False, False, False, False, False,
                      {'outer': inner, 'z': 1}), 1
            yield m, (0, 'q', False, False, False, False, False,
                      {'arr': [inner, {'deep': inner}], 'z': n}), 1
    elif kind == 'table-strlen':
        m = M['Queue.Declare']
        for n in list(range(0, 600)) + _around([4096, 65536], 8):
            t = {'s': 'v' * n, 'x': bytearray(b'\xce' * (n % 97))}
            yield m, (0, 'q', False, False, False, False, False, t), 1
        for n in range(0, 129):
            yield m, (0, 'q', False, False, False, False, False,
                      {'k' * n: n, 'é' * (n // 2): None}), 1
        for n in (131073, 200000):
            yield m, (0, 'q', False, False, False, False, False,
                      {'blob': 'v' * n}), 1
        for ch_, width in (('é', 2), ('€', 3), ('\U0001F600', 4)):
            for prefix in range(0, width + 1):
                k = 4096 // width + 8
                yield m, (0, 'q', False, False, False, False, False,
                          {'s': 'x' * prefix + ch_ * k,
                           'a': ['y' * prefix + ch_ * k]}), 1
    elif kind == 'table-depth':
        # every nesting depth 1..128 (thorough 200), four list/dict patterns,
        # innermost container holding a scalar / nothing.  Up to depth 32
        # acceptance is required; beyond it, whatever the encoder accepts
        # must still round-trip
        m = M['Queue.Declare']
        for d in range(1, (200 if thorough else 128) + 1):
            for pattern in ('list', 'dict', 'alt', 'alt2'):
                inners = [A.deep(d - 1, pattern, 1)]
                if d >= 2:      # the same depth ending in an empty container
                    inners.append(A.deep(d - 2, pattern, [] if d % 2 else {}))
                if d % 4 == 0:
                    inners += [A.deep(d - 1, pattern, 'leaf'),
                               A.deep(d - 1, pattern, -129)]
                for inner in inners:
                    yield m, (0, 'q', False, False, False, False, False,
                              {'d': inner}), 1
    elif kind == 'table-keylen':
        # every field-name length up to 128 characters / 255 bytes, for
        # 1-, 2-, 3- and 4-byte characters, at the top and one level down
        m = M['Queue.Declare']
        for ch_, width in (('k', 1), ('é', 2), ('€', 3), ('\U0001F600', 4)):
            for n in range(0, min(128, 255 // width) + 1):
                t = {ch_ * n: n, 'in': {ch_ * n: [n]}}
                yield m, (0, 'q', False, False, False, False, False, t), 1
            for n in range(0, min(127, 254 // width) + 1):
                t = {'a' + ch_ * n: n}
                yield m, (0, 'q', False, False, False, False, False, t), 1
    elif kind == 'array-count':
        m = M['Queue.Declare']
        top = 1200 if thorough else 400
        for n in range(0, top):
            t = {'a': [i - n // 2 for i in range(n)], 'b': [[]] * (n % 9)}
            yield m, (0, 'q', False, False, False, False, False, t), 1
