"""Independent reference codec for AMQP 0-9-1 (+ RabbitMQ field-type errata).

Written from the grammar; imports nothing from pamqp.  Encoder side records a
*field map* (offset, width, kind) of every structural field so the fault
enumerator can rewrite them.  Decoder side is a plain recursive-descent reader.
"""
import calendar
import datetime
import decimal
import struct
import time

from mc import spec_table

FRAME_METHOD, FRAME_HEADER, FRAME_BODY, FRAME_HEARTBEAT = 1, 2, 3, 8
FRAME_END = 0xCE
UTC = datetime.timezone.utc
EPOCH = datetime.datetime(1970, 1, 1, tzinfo=UTC)


class RefError(Exception):
    """The reference codec refuses the value / the bytes are malformed."""


class Refuse(RefError):
    """Well-formed on the wire but not representable (e.g. year > 9999)."""


# --------------------------------------------------------------------------
# Writer with a field map


class Raw(bytes):
    """Pre-encoded wire bytes placed verbatim (reference generator only)."""


class W:
    __slots__ = ('parts', 'pos', 'fields')

    def __init__(self):
        self.parts, self.pos, self.fields = [], 0, []

    def put(self, data, kind=None):
        if kind is not None:
            self.fields.append((self.pos, len(data), kind))
        self.parts.append(data)
        self.pos += len(data)

    def bytes(self):
        return b''.join(self.parts)


def _pack(fmt, v, what):
    try:
        return struct.pack(fmt, v)
    except (struct.error, TypeError, OverflowError) as err:
        raise RefError('{} out of range: {!r} ({})'.format(what, v, err))


def _need_int(v, what):
    if isinstance(v, bool) or not isinstance(v, int):
        # bool is accepted by the library wherever an int is (bool is an int
        # in Python); the reference accepts it the same way for wire ints.
        if isinstance(v, bool):
            return int(v)
        raise RefError('{}: int required, got {!r}'.format(what, type(v)))
    return v


def ts_seconds(v):
    """Absolute instant of a timestamp input, whole seconds since the epoch."""
    if isinstance(v, datetime.datetime):
        if v.tzinfo is None or v.tzinfo.utcoffset(v) is None:
            v = v.replace(tzinfo=UTC)
        delta = v - EPOCH
        # floor to whole seconds toward zero the way int(float) does for
        # non-negative instants; negative instants are outside the domain
        secs = delta.days * 86400 + delta.seconds
        if delta.days < 0 and delta.microseconds:
            secs += 1  # int() truncates toward zero
        return secs
    if isinstance(v, time.struct_time):
        return calendar.timegm(v)
    raise RefError('timestamp: datetime/struct_time required')


def ladder_tag(n, legacy=False):
    """Smallest fitting table-integer tag in the documented order."""
    if -2**7 <= n <= 2**7 - 1:
        return 'b'
    if -2**15 <= n <= 2**15 - 1:
        return 's'
    if not legacy and 0 <= n <= 2**16 - 1:
        return 'u'
    if -2**31 <= n <= 2**31 - 1:
        return 'I'
    if not legacy and 0 <= n <= 2**32 - 1:
        return 'i'
    if -2**63 <= n <= 2**63 - 1:
        return 'l'
    raise RefError('integer outside [-2^63, 2^63-1]: {}'.format(n))


INT_FMT = {'b': '>b', 'B': '>B', 's': '>h', 'u': '>H', 'I': '>i', 'i': '>I',
           'l': '>q', 'L': '>q'}
INT_WIDTH = {'b': 1, 'B': 1, 's': 2, 'u': 2, 'I': 4, 'i': 4, 'l': 8, 'L': 8}


def decimal_parts(v):
    """(scale, unscaled) of a Decimal, or RefError if not representable."""
    if not v.is_finite():
        raise RefError('non-finite decimal')
    sign, digits, exp = v.as_tuple()
    if exp >= 0:
        scale = 0
        unscaled = int(v)
    else:
        scale = -exp
        unscaled = int(v.scaleb(scale))
    if scale > 255:
        raise RefError('decimal scale > 255')
    if not -2**31 <= unscaled <= 2**31 - 1:
        raise RefError('decimal unscaled value outside signed 32 bit')
    return scale, unscaled


def put_shortstr(w, s, kind='shortstr'):
    if not isinstance(s, str):
        raise RefError('shortstr: str required')
    raw = s.encode('utf-8')
    if len(raw) > 255:
        raise RefError('shortstr longer than 255 bytes')
    w.put(bytes([len(raw)]), kind + '.len')
    w.put(raw)


def put_longstr(w, s, kind='longstr'):
    if isinstance(s, str):
        raw = s.encode('utf-8')
    elif isinstance(s, (bytes, bytearray)):
        raw = bytes(s)
    else:
        raise RefError('longstr: str required')
    w.put(struct.pack('>I', len(raw)), kind + '.len')
    w.put(raw)


def put_value(w, v, legacy=False):
    """Table/array value: tag + payload, library's documented type mapping."""
    if isinstance(v, Raw):
        w.put(bytes(v))
    elif isinstance(v, bool):
        w.put(b't', 'tag')
        w.put(b'\x01' if v else b'\x00')
    elif isinstance(v, int):
        tag = ladder_tag(v, legacy)
        w.put(tag.encode(), 'tag')
        w.put(struct.pack(INT_FMT[tag], v))
    elif isinstance(v, decimal.Decimal):
        scale, unscaled = decimal_parts(v)
        w.put(b'D', 'tag')
        w.put(bytes([scale]), 'decimal.scale')
        w.put(struct.pack('>i', unscaled))
    elif isinstance(v, float):
        w.put(b'f', 'tag')
        w.put(_pack('>f', v, 'float'))
    elif isinstance(v, str):
        w.put(b'S', 'tag')
        put_longstr(w, v)
    elif isinstance(v, (datetime.datetime, time.struct_time)):
        w.put(b'T', 'tag')
        w.put(_pack('>Q', ts_seconds(v), 'timestamp'))
    elif isinstance(v, dict):
        w.put(b'F', 'tag')
        put_table(w, v, legacy)
    elif isinstance(v, list):
        w.put(b'A', 'tag')
        put_array(w, v, legacy)
    elif isinstance(v, bytearray):
        w.put(b'x', 'tag')
        w.put(struct.pack('>I', len(v)), 'bytearray.len')
        w.put(bytes(v))
    elif v is None:
        w.put(b'V', 'tag')
    else:
        raise RefError('unencodable type {!r}'.format(type(v)))


def put_table(w, d, legacy=False):
    if d is None:
        d = {}
    if not isinstance(d, dict):
        raise RefError('table: dict required')
    inner = W()
    for key in sorted(d):
        if not isinstance(key, str):
            raise RefError('table key must be str')
        put_shortstr(inner, key[:128], 'key')
        put_value(inner, d[key], legacy)
    body = inner.bytes()
    w.put(struct.pack('>I', len(body)), 'table.len')
    base = w.pos
    for off, width, kind in inner.fields:
        w.fields.append((base + off, width, kind))
    w.put(body)


def put_array(w, items, legacy=False):
    if not isinstance(items, list):
        raise RefError('array: list required')
    inner = W()
    for item in items:
        put_value(inner, item, legacy)
    body = inner.bytes()
    w.put(struct.pack('>I', len(body)), 'array.len')
    base = w.pos
    for off, width, kind in inner.fields:
        w.fields.append((base + off, width, kind))
    w.put(body)


def enc_value(v, legacy=False):
    w = W()
    put_value(w, v, legacy)
    return w.bytes()


def enc_table(d, legacy=False):
    w = W()
    put_table(w, d, legacy)
    return w.bytes()


def enc_array(items, legacy=False):
    w = W()
    put_array(w, items, legacy)
    return w.bytes()


def put_typed(w, v, wire_type, legacy=False):
    """A method argument / property of a fixed wire type (not bit)."""
    if isinstance(v, Raw):
        w.put(bytes(v))
    elif wire_type == 'octet':
        w.put(_pack('>B', _need_int(v, 'octet'), 'octet'))
    elif wire_type == 'short':
        w.put(_pack('>H', _need_int(v, 'short'), 'short'))
    elif wire_type == 'long':
        w.put(_pack('>I', _need_int(v, 'long'), 'long'))
    elif wire_type == 'longlong':
        # spec: unsigned 64 bit; the library documents a signed encoder.  The
        # two agree on 0..2^63-1, which is the domain the checks require;
        # negatives are encoded two's complement like the library documents.
        v = _need_int(v, 'longlong')
        if not -2**63 <= v <= 2**63 - 1:
            raise RefError('longlong out of range')
        w.put(struct.pack('>q', v))
    elif wire_type == 'shortstr':
        put_shortstr(w, v)
    elif wire_type == 'longstr':
        put_longstr(w, v)
    elif wire_type == 'table':
        put_table(w, v, legacy)
    elif wire_type == 'timestamp':
        w.put(_pack('>Q', ts_seconds(v), 'timestamp'))
    else:
        raise RefError('unknown wire type ' + wire_type)


def put_method_args(w, method, values, legacy=False):
    """values: list in spec order.  Consecutive bits share octets LSB-first."""
    bits, nbits = 0, 0

    def flush():
        nonlocal bits, nbits
        if nbits:
            w.put(bytes([bits]), 'bits')
            bits, nbits = 0, 0

    for (name, wire_type, _default), v in zip(method.args, values):
        if wire_type == 'bit':
            if v:
                bits |= 1 << nbits
            nbits += 1
            if nbits == 8:
                flush()
        else:
            flush()
            put_typed(w, v, wire_type, legacy)
    flush()


def frame(frame_type, channel, payload_writer):
    """Wrap a payload W into a frame; returns (bytes, fields)."""
    payload = payload_writer.bytes()
    if not 0 <= channel <= 0xFFFF:
        raise RefError('channel out of range')
    out = W()
    out.put(bytes([frame_type]), 'frame.type')
    out.put(struct.pack('>H', channel), 'frame.channel')
    out.put(struct.pack('>I', len(payload)), 'frame.size')
    base = out.pos
    for off, width, kind in payload_writer.fields:
        out.fields.append((base + off, width, kind))
    out.put(payload)
    out.put(bytes([FRAME_END]), 'frame.end')
    return out.bytes(), out.fields


def enc_method_frame(method, values, channel, legacy=False):
    w = W()
    w.put(struct.pack('>H', method.class_id), 'class.id')
    w.put(struct.pack('>H', method.method_id), 'method.id')
    put_method_args(w, method, values, legacy)
    return frame(FRAME_METHOD, channel, w)


def enc_method_payload(method, values, legacy=False):
    w = W()
    put_method_args(w, method, values, legacy)
    return w.bytes()


def is_set(value):
    return value is not None and not (isinstance(value, str) and value == '')


def put_properties(w, props, legacy=False, extra_flags=0):
    """props: dict name -> value; unset = missing / None / ''."""
    flags = extra_flags
    for name, _t, bit in spec_table.PROPERTIES:
        if is_set(props.get(name)):
            flags |= 1 << bit
    w.put(struct.pack('>H', flags), 'flags')
    for name, wire_type, _bit in spec_table.PROPERTIES:
        v = props.get(name)
        if is_set(v):
            put_typed(w, v, wire_type, legacy)


def enc_properties(props, legacy=False):
    w = W()
    put_properties(w, props, legacy)
    return w.bytes()


def enc_header_frame(body_size, props, channel, legacy=False, class_id=60,
                     weight=0, extra_flags=0):
    w = W()
    w.put(struct.pack('>H', class_id), 'class.id')
    w.put(struct.pack('>H', weight), 'weight')
    w.put(_pack('>Q', body_size, 'body size'), 'body.size')
    put_properties(w, props, legacy, extra_flags)
    return frame(FRAME_HEADER, channel, w)


def enc_body_frame(data, channel):
    w = W()
    w.put(bytes(data))
    return frame(FRAME_BODY, channel, w)


HEARTBEAT = b'\x08\x00\x00\x00\x00\x00\x00\xce'


def enc_heartbeat_frame(channel=0):
    return frame(FRAME_HEARTBEAT, channel, W())


def enc_protocol_header(major, minor, revision):
    for v in (major, minor, revision):
        if isinstance(v, bool) or not isinstance(v, int) or not 0 <= v <= 255:
            raise RefError('version octet out of range')
    return b'AMQP\x00' + bytes([major, minor, revision])


# --------------------------------------------------------------------------
# Reference decoder


class R:
    __slots__ = ('buf', 'pos', 'end')

    def __init__(self, buf, pos=0, end=None):
        self.buf, self.pos = buf, pos
        self.end = len(buf) if end is None else end

    def take(self, n):
        if n < 0 or self.pos + n > self.end:
            raise RefError('truncated: need {} at {} (end {})'.format(
                n, self.pos, self.end))
        out = self.buf[self.pos:self.pos + n]
        self.pos += n
        return out

    def u(self, fmt, n):
        return struct.unpack(fmt, self.take(n))[0]


def get_timestamp(raw):
    """Library's documented rule: <= 0xFFFFFFFF is seconds, above is ms."""
    try:
        if raw <= 0xFFFFFFFF:
            return EPOCH + datetime.timedelta(seconds=raw)
        return ('ms', raw)  # resolved by the caller (floating division)
    except OverflowError:
        raise Refuse('timestamp out of range')


def resolve_ms(raw):
    """The instant (as exact microseconds) for a millisecond timestamp."""
    try:
        return EPOCH + datetime.timedelta(milliseconds=raw)
    except OverflowError:
        raise Refuse('timestamp beyond year 9999')


def get_value(r, depth=0):
    tag = r.take(1)
    if tag == b't':
        return r.take(1) != b'\x00'
    if tag in (b'b', b'B', b's', b'u', b'I', b'i', b'l', b'L'):
        t = tag.decode()
        return r.u(INT_FMT[t], INT_WIDTH[t])
    if tag == b'f':
        return r.u('>f', 4)
    if tag == b'd':
        return r.u('>d', 8)
    if tag == b'D':
        scale = r.u('>B', 1)
        unscaled = r.u('>i', 4)
        return decimal.Decimal(unscaled).scaleb(-scale)
    if tag == b'S':
        raw = r.take(r.u('>I', 4))
        try:
            return raw.decode('utf-8')
        except UnicodeDecodeError:
            return bytes(raw)
    if tag == b'A':
        return get_array(r, depth + 1)
    if tag == b'T':
        return get_timestamp(r.u('>Q', 8))
    if tag == b'F':
        return get_table(r, depth + 1)
    if tag in (b'V', b'\x00'):
        return None
    if tag == b'x':
        return bytearray(r.take(r.u('>I', 4)))
    raise RefError('unknown tag {!r}'.format(tag))


def get_shortstr(r):
    raw = r.take(r.u('>B', 1))
    try:
        return raw.decode('utf-8')
    except UnicodeDecodeError:
        raise RefError('short string is not UTF-8')


def get_table(r, depth=0):
    length = r.u('>I', 4)
    sub = R(r.buf, r.pos, r.pos + length)
    if sub.end > r.end:
        raise RefError('table length beyond data')
    out = {}
    while sub.pos < sub.end:
        key = get_shortstr(sub)
        out[key] = get_value(sub, depth)
    r.pos = sub.end
    return out


def get_array(r, depth=0):
    length = r.u('>I', 4)
    sub = R(r.buf, r.pos, r.pos + length)
    if sub.end > r.end:
        raise RefError('array length beyond data')
    out = []
    while sub.pos < sub.end:
        out.append(get_value(sub, depth))
    r.pos = sub.end
    return out


def get_typed(r, wire_type):
    if wire_type == 'octet':
        return r.u('>B', 1)
    if wire_type == 'short':
        return r.u('>H', 2)
    if wire_type == 'long':
        return r.u('>I', 4)
    if wire_type == 'longlong':
        return r.u('>q', 8)   # library documents the signed reading
    if wire_type == 'shortstr':
        return get_shortstr(r)
    if wire_type == 'longstr':
        raw = r.take(r.u('>I', 4))
        try:
            return raw.decode('utf-8')
        except UnicodeDecodeError:
            return bytes(raw)
    if wire_type == 'table':
        return get_table(r)
    if wire_type == 'timestamp':
        return get_timestamp(r.u('>Q', 8))
    raise RefError('unknown wire type ' + wire_type)


def get_method_args(r, method):
    out = []
    bits, nbits = None, 0
    for name, wire_type, _d in method.args:
        if wire_type == 'bit':
            if bits is None or nbits == 8:
                bits, nbits = r.u('>B', 1), 0
            out.append(bool(bits & (1 << nbits)))
            nbits += 1
        else:
            bits, nbits = None, 0
            out.append(get_typed(r, wire_type))
    return out


def get_properties(r):
    """Returns (dict of set properties, list of flag words)."""
    words = []
    while True:
        word = r.u('>H', 2)
        words.append(word)
        if not word & 1:
            break
    flags = words[0]
    out = {}
    for name, wire_type, bit in spec_table.PROPERTIES:
        if flags & (1 << bit):
            out[name] = get_typed(r, wire_type)
    return out, words


def dec_frame(buf):
    """Decode exactly one frame at the start of buf.

    Returns a dict {kind, consumed, channel, ...}; raises RefError when the
    bytes are not a complete well-formed frame.
    """
    if buf[:4] == b'AMQP':
        if len(buf) < 8:
            raise RefError('truncated protocol header')
        return {'kind': 'protocol', 'consumed': 8, 'channel': 0,
                'version': (buf[5], buf[6], buf[7])}
    if len(buf) < 7:
        raise RefError('truncated frame header')
    ftype, channel, size = struct.unpack('>BHI', buf[:7])
    total = size + 8
    if len(buf) < total:
        raise RefError('truncated frame')
    if buf[total - 1] != FRAME_END:
        raise RefError('bad frame end')
    r = R(buf, 7, total - 1)
    out = {'consumed': total, 'channel': channel}
    if ftype == FRAME_METHOD:
        cid, mid = r.u('>H', 2), r.u('>H', 2)
        method = spec_table.BY_INDEX.get((cid << 16) | mid)
        if method is None:
            raise RefError('unknown method {}.{}'.format(cid, mid))
        out.update(kind='method', method=method,
                   args=get_method_args(r, method))
    elif ftype == FRAME_HEADER:
        out.update(kind='header', class_id=r.u('>H', 2), weight=r.u('>H', 2),
                   body_size=r.u('>Q', 8))
        props, words = get_properties(r)
        out.update(properties=props, flag_words=words)
    elif ftype == FRAME_BODY:
        out.update(kind='body', value=bytes(r.take(size)))
    elif ftype == FRAME_HEARTBEAT:
        if size != 0:
            raise RefError('heartbeat with payload')
        out.update(kind='heartbeat')
    else:
        raise RefError('unknown frame type {}'.format(ftype))
    return out
