"""Observation of the implementation through its public API only."""
import datetime

from mc import refcodec, spec_table
from mc.canon import canon, norm, short

UTC = datetime.timezone.utc


_P = None


def pamqp():
    global _P
    if _P is None:
        _P = _load()
    return _P


def _load():
    import pamqp.frame      # noqa
    import pamqp.commands   # noqa
    import pamqp.header     # noqa
    import pamqp.body       # noqa
    import pamqp.heartbeat  # noqa
    import pamqp.exceptions  # noqa
    import pamqp.encode     # noqa
    import pamqp.decode     # noqa
    import pamqp
    return pamqp


def kind_of(obj):
    p = pamqp()
    if isinstance(obj, p.header.ProtocolHeader):
        return 'protocol'
    if isinstance(obj, p.base.Frame):
        return 'method'
    if isinstance(obj, p.header.ContentHeader):
        return 'header'
    if isinstance(obj, p.body.ContentBody):
        return 'body'
    if isinstance(obj, p.heartbeat.Heartbeat):
        return 'heartbeat'
    return 'other:' + type(obj).__name__


def value_matches(expected, got):
    """expected is a reference-decoded value (may contain ('ms', raw))."""
    if isinstance(expected, tuple) and len(expected) == 2 and \
            expected[0] == 'ms':
        if not isinstance(got, datetime.datetime) or got.tzinfo is None:
            return False
        if got.utcoffset() != datetime.timedelta(0):
            return False
        want = refcodec.resolve_ms(expected[1])
        return abs(got - want) <= datetime.timedelta(milliseconds=1)
    if isinstance(expected, list):
        return (type(got) is list and len(got) == len(expected) and
                all(value_matches(e, g) for e, g in zip(expected, got)))
    if isinstance(expected, dict):
        return (type(got) is dict and list(sorted(got)) ==
                list(sorted(expected)) and
                all(value_matches(expected[k], got[k]) for k in expected))
    return canon(expected) == canon(got)


def has_unrepresentable(v):
    """True when a reference value holds a ms-timestamp beyond year 9999."""
    if isinstance(v, tuple) and len(v) == 2 and v[0] == 'ms':
        try:
            refcodec.resolve_ms(v[1])
            return False
        except refcodec.Refuse:
            return True
    if isinstance(v, list):
        return any(has_unrepresentable(x) for x in v)
    if isinstance(v, dict):
        return any(has_unrepresentable(x) for x in v.values())
    return False


def compare_frame(ref, consumed, channel, obj, check_consumed=True):
    """Mismatches between a reference-decoded frame dict and the library's
    (consumed, channel, obj).  Returns a list of strings (empty = equal)."""
    bad = []
    if check_consumed and consumed != ref['consumed']:
        bad.append('consumed {} != {}'.format(consumed, ref['consumed']))
    if channel != ref['channel']:
        bad.append('channel {} != {}'.format(channel, ref['channel']))
    kind = kind_of(obj)
    if kind != ref['kind']:
        bad.append('kind {} != {}'.format(kind, ref['kind']))
        return bad
    if kind == 'method':
        method = ref['method']
        from mc import corpus
        if type(obj) is not corpus.lib_class_by_name(method):
            bad.append('class {} is not {}'.format(type(obj).__name__,
                                                   method.name))
            return bad
        for (name, _t, _d), want in zip(method.args, ref['args']):
            try:
                got = getattr(obj, name)
            except AttributeError:
                bad.append('{}: attribute missing'.format(name))
                continue
            if not value_matches(want, got):
                bad.append('{}: {} != {}'.format(name, short(got),
                                                 short(want)))
    elif kind == 'header':
        if obj.body_size != ref['body_size']:
            bad.append('body_size {} != {}'.format(obj.body_size,
                                                   ref['body_size']))
        if obj.class_id != ref['class_id']:
            bad.append('class_id {} != {}'.format(obj.class_id,
                                                  ref['class_id']))
        props = obj.properties
        for name, _t, _b in spec_table.PROPERTIES:
            got = getattr(props, name, 'MISSING')
            if name in ref['properties']:
                if not value_matches(ref['properties'][name], got):
                    bad.append('{}: {} != {}'.format(
                        name, short(got), short(ref['properties'][name])))
            else:
                unset = '' if name == 'cluster_id' else None
                if not (got is None or
                        (name == 'cluster_id' and got == '')):
                    bad.append('{}: {} should be unset ({!r})'.format(
                        name, short(got), unset))
    elif kind == 'body':
        if type(obj.value) is not bytes or obj.value != ref['value']:
            bad.append('body value {} != {}'.format(short(obj.value),
                                                    short(ref['value'])))
    elif kind == 'protocol':
        got = (obj.major_version, obj.minor_version, obj.revision)
        if got != ref['version']:
            bad.append('version {} != {}'.format(got, ref['version']))
    return bad


def frame_summary(obj):
    """Canonical, hashable description of a decoded frame (public view)."""
    kind = kind_of(obj)
    if kind == 'method':
        m = spec_table.BY_NAME.get(getattr(obj, 'name', None))
        names = [a[0] for a in m.args] if m else list(obj.attributes())
        return (kind, type(obj).__name__, getattr(obj, 'name', None),
                tuple((n, canon(getattr(obj, n, 'MISSING'))) for n in names))
    if kind == 'header':
        return (kind, obj.class_id, obj.weight, obj.body_size,
                tuple((n, canon(getattr(obj.properties, n, 'MISSING')))
                      for n, _t, _b in spec_table.PROPERTIES))
    if kind == 'body':
        return (kind, canon(obj.value))
    if kind == 'protocol':
        return (kind, obj.major_version, obj.minor_version, obj.revision)
    return (kind,)


def unmarshal_outcome(data):
    """('ok', consumed, channel, obj) | ('unmarshal-exc', exc) |
    ('other-exc', exc)."""
    p = pamqp()
    try:
        consumed, channel, obj = p.frame.unmarshal(data)
    except p.exceptions.UnmarshalingException as exc:
        return ('unmarshal-exc', exc)
    except RecursionError as exc:
        return ('other-exc', exc)
    except Exception as exc:  # noqa
        return ('other-exc', exc)
    return ('ok', consumed, channel, obj)


class _Sink(__import__('logging').Handler):
    """Formats every record (as a real handler would) and drops it."""

    def emit(self, record):
        try:
            record.getMessage()
        except Exception:  # noqa  (logging itself swallows these, too)
            pass


import contextlib as _contextlib


@_contextlib.contextmanager
def debug_logging():
    """The process environment of an application that has switched debug
    logging on: level DEBUG on the root and on every pamqp logger, a handler
    that formats each record.  Restored on exit."""
    import logging
    root = logging.getLogger()
    names = [n for n in list(logging.root.manager.loggerDict)
             if n == 'pamqp' or n.startswith('pamqp.')] + ['pamqp']
    saved = [(logging.getLogger(n), logging.getLogger(n).level)
             for n in names]
    saved_root = root.level
    saved_disable = logging.root.manager.disable
    sink = _Sink()
    root.addHandler(sink)
    root.setLevel(logging.DEBUG)
    for lg, _lvl in saved:
        lg.setLevel(logging.DEBUG)
    logging.disable(logging.NOTSET)
    try:
        yield
    finally:
        logging.disable(saved_disable)
        for lg, lvl in saved:
            lg.setLevel(lvl)
        root.setLevel(saved_root)
        root.removeHandler(sink)


@_contextlib.contextmanager
def warnings_as_errors():
    """The process environment of an application (or test run) started with
    -W error: every warning is raised as an exception."""
    import warnings
    with warnings.catch_warnings():
        warnings.simplefilter('error')
        yield
