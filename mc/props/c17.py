"""C17 - reply-code exceptions and protocol constants match the specification."""
from mc import lib, refcodec, spec_table
from mc.canon import short

ID = 'C17'
LEVEL = 'model_checking'
RULE = ('Complete enumeration of a finite structure: every (reply code, '
        'fact) and every protocol constant, statically and behaviourally, '
        'against the transcribed table. A case is one fact; all are '
        'non-trivial.'
        ' '
        "Also: the caught INSTANCE carries the specification's name "
        'and value and keeps its args, for ~170 constructor argument '
        'shapes per class (broker tokens in both spellings with three '
        'separators, hostile text, other types, instances of every '
        'other reply-code class and of foreign exceptions).')
BOUNDS = {'quick': {'facts': 'all'}, 'thorough': {'facts': 'all'}}
ASSUMPTIONS = ['mc/spec_table.py REPLY_CODES/CONSTANTS transcribe the AMQP '
               '0-9-1 constants section']


def tasks(tier, seed):
    return ['codes', 'constants']


def fact(ctx, subject, name, want, got):
    ctx.case((subject, name), True,
             sample={'subject': subject, 'fact': name, 'spec': short(want, 80)})
    ctx.valid()
    ctx.calls()
    if want != got or type(want) is not type(got):
        ctx.outcome('mismatch')
        ctx.violation('constants|{}|{}'.format(subject, name),
                      '{}: {} is {} but the specification says {}'.format(
                          subject, name, short(got), short(want)),
                      {'subject': subject, 'fact': name}, short(want),
                      short(got))
    else:
        ctx.outcome('ok')


def check_codes(ctx):
    p = lib.pamqp()
    ex = p.exceptions
    mapping = ex.CLASS_MAPPING
    fact(ctx, 'CLASS_MAPPING', 'codes', sorted(c for c, _n, _k in
                                               spec_table.REPLY_CODES),
         sorted(mapping))
    fact(ctx, 'CLASS_MAPPING', 'one class per code', len(mapping),
         len({id(c) for c in mapping.values()}))
    for code, name, kind in spec_table.REPLY_CODES:
        cls = mapping.get(code)
        subject = 'reply code %d' % code
        fact(ctx, subject, 'is mapped', True, cls is not None)
        if cls is None:
            continue
        fact(ctx, subject, 'value', code, getattr(cls, 'value', None))
        fact(ctx, subject, 'name', name, getattr(cls, 'name', None))
        base = ex.AMQPSoftError if kind == 'soft' else ex.AMQPHardError
        other = ex.AMQPHardError if kind == 'soft' else ex.AMQPSoftError
        fact(ctx, subject, 'derives from the %s-error base' % kind, True,
             issubclass(cls, base))
        fact(ctx, subject, 'does not derive from the other base', False,
             issubclass(cls, other))
        fact(ctx, subject, 'catchable as AMQPError', True,
             issubclass(cls, ex.AMQPError))
        fact(ctx, subject, 'catchable as PAMQPException', True,
             issubclass(cls, ex.PAMQPException))
        # behaviourally: raise and catch
        caught = None
        try:
            raise cls('x')
        except ex.PAMQPException as err:
            caught = type(err)
        except Exception as err:  # noqa
            caught = 'escaped: ' + type(err).__name__
        fact(ctx, subject, 'raise/catch through the common base', True,
             caught is cls)
    check_instances(ctx)
    # an application may derive its own exceptions from the library's: the
    # mapping must keep naming the library's classes
    before = dict(mapping)
    made = []
    for code, name, kind in spec_table.REPLY_CODES:
        cls = before.get(code)
        if cls is None:
            continue
        made.append(type('App' + cls.__name__, (cls,), {'name': 'app-error'}))
        other = ex.AMQPHardError if kind == 'soft' else ex.AMQPSoftError
        try:
            made.append(type('AppMixed' + cls.__name__, (cls, other), {}))
        except TypeError:
            pass
    for code, name, kind in spec_table.REPLY_CODES:
        fact(ctx, 'reply code %d' % code,
             'still maps to the same class after applications subclassed it',
             True, mapping.get(code) is before.get(code))
    fact(ctx, 'CLASS_MAPPING', 'codes after applications defined subclasses',
         sorted(c for c, _n, _k in spec_table.REPLY_CODES), sorted(mapping))
    # every other AMQP* class of the module is mapped; one code per class
    names = {}
    for attr in dir(ex):
        obj = getattr(ex, attr)
        if isinstance(obj, type) and issubclass(obj, ex.AMQPError) and \
                obj not in (ex.AMQPError, ex.AMQPSoftError, ex.AMQPHardError):
            names[attr] = obj
    unmapped = sorted(n for n, c in names.items()
                      if mapping.get(getattr(c, 'value', None)) is not c)
    fact(ctx, 'exceptions', 'AMQP error classes that are not mapped', [],
         unmapped)
    fact(ctx, 'exceptions', 'UnmarshalingException derives from the base',
         True, issubclass(ex.UnmarshalingException, ex.PAMQPException))
    fact(ctx, 'exceptions', 'base derives from Exception', True,
         issubclass(ex.PAMQPException, Exception))


def constructor_arguments():
    """What a client passes when it raises the class for a Close frame it
    received: nothing, the reply text, the frame's fields. The reply text is
    the peer's: every specification name in both spellings as a leading
    token (a broker prefixes one, and it need not be this code's), the hostile
    texts used elsewhere, other types."""
    from mc import faults
    out = [(), ('x',), ('',), (None,), (0,), (b'bytes',), ('a', 'b'),
           (404, 'NOT_FOUND - x'), ('x', 60, 40)]
    tokens = []
    for _code, name, _kind in spec_table.REPLY_CODES:
        tokens += [name, name.replace('-', '_'), name.lower()]
    tokens += ['QUEUE_DELETED', 'TIMEOUT', 'SHUTDOWN', 'OK', 'name', 'value',
               '200', '404', 'A', 'A1', '_', '-']
    for tok in tokens:
        for sep in (' - ', ': ', ' '):
            out.append((tok + sep + "no queue 'q' in vhost '/'",))
        out.append((tok,))
    for text in faults.HOSTILE_TEXT:
        out.append((text,))
        out.append((text + ' - ' + text,))
    return out


def check_instances(ctx):
    """The facts a handler reads are read from the caught *instance*: they
    must be the specification's whatever the instance was constructed with."""
    p = lib.pamqp()
    ex = p.exceptions
    argsets = constructor_arguments()
    # ... an error wrapped in another (raise AMQPInternalError(err)): every
    # other reply-code class's instance, the bases', a foreign exception
    others = [cls_('inner') for cls_ in ex.CLASS_MAPPING.values()]
    others += [ex.AMQPError('e'), ex.AMQPSoftError('s'), ex.AMQPHardError('h'),
               ex.PAMQPException('p'), ValueError('v'), KeyError('k')]
    argsets = argsets + [(o,) for o in others] + [(others[0], others[1])]
    for code, name, kind in spec_table.REPLY_CODES:
        cls = ex.CLASS_MAPPING.get(code)
        if cls is None:
            continue
        base = ex.AMQPSoftError if kind == 'soft' else ex.AMQPHardError
        for no, args in enumerate(argsets):
            subject = 'reply code %d raised with arguments #%d %s' % (
                code, no, short(args, 60))
            try:
                try:
                    raise cls(*args)
                except ex.PAMQPException as err:
                    got = (type(err) is cls, isinstance(err, base),
                           getattr(err, 'value', None),
                           getattr(err, 'name', None), err.args == args)
            except Exception as err:  # noqa - constructor refused or escaped
                got = 'escaped: ' + type(err).__name__
            fact(ctx, subject, 'caught instance (class, base, value, name, '
                 'args kept)', (True, True, code, name, True), got)
        # the class attributes are what they were after all that
        fact(ctx, 'reply code %d' % code, 'name after instances were built',
             name, getattr(cls, 'name', None))
        fact(ctx, 'reply code %d' % code, 'value after instances were built',
             code, getattr(cls, 'value', None))


def check_constants(ctx):
    p = lib.pamqp()
    c = p.constants
    for name, want in spec_table.CONSTANTS.items():
        fact(ctx, 'constants', name, want, getattr(c, name, 'MISSING'))
    # behavioural
    fact(ctx, 'behaviour', 'heartbeat frame bytes', refcodec.HEARTBEAT.hex(),
         p.frame.marshal(p.heartbeat.Heartbeat(), 0).hex())
    fact(ctx, 'behaviour', 'protocol header bytes',
         b'AMQP\x00\x00\x09\x01'.hex(),
         p.frame.marshal(p.header.ProtocolHeader(), 0).hex())
    d = p.frame.marshal(p.commands.Tx.Select(), 3)
    fact(ctx, 'behaviour', 'method frame envelope',
         b'\x01\x00\x03\x00\x00\x00\x04\x00\x5a\x00\x0a\xce'.hex(), d.hex())
    d = p.frame.marshal(p.body.ContentBody(b'xy'), 3)
    fact(ctx, 'behaviour', 'body frame envelope',
         b'\x03\x00\x03\x00\x00\x00\x02xy\xce'.hex(), d.hex())
    d = p.frame.marshal(p.header.ContentHeader(0, 2), 3)
    fact(ctx, 'behaviour', 'header frame envelope',
         (b'\x02\x00\x03\x00\x00\x00\x0e\x00\x3c\x00\x00' +
          b'\x00' * 7 + b'\x02\x00\x00\xce').hex(), d.hex())
    for ftype, kind in ((1, 'method'), (2, 'header'), (3, 'body'),
                        (8, 'heartbeat')):
        payload = {1: b'\x00\x5a\x00\x0a', 2: b'\x00\x3c\x00\x00' + b'\x00' *
                   8 + b'\x00\x00', 3: b'z', 8: b''}[ftype]
        data = bytes([ftype]) + b'\x00\x01' + \
            len(payload).to_bytes(4, 'big') + payload + b'\xce'
        out = lib.unmarshal_outcome(data)
        got = lib.kind_of(out[3]) if out[0] == 'ok' else out[0]
        fact(ctx, 'behaviour', 'frame type %d decodes as' % ftype, kind, got)


def run(task, ctx):
    if task == 'codes':
        check_codes(ctx)
    else:
        check_constants(ctx)


def replay(case, ctx):
    check_codes(ctx)
    check_constants(ctx)
    ctx.violations = [v for v in ctx.violations if v['case'] == case]
