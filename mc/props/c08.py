"""C08 - decoding any byte string terminates with bounded work and memory."""
import gc
import tracemalloc

from mc import fuzzspace, lib, steps

ID = 'C08'
LEVEL = 'model_checking'
RULE = ('E4 fault enumerator (same spaces as C09: single-byte corruptions, '
        'structural field rewrites incl. every length 0..R+2 and 2^31-1/2^31/'
        '2^32-1, truncations, small byte strings inside 5 envelopes, header-'
        'shape product, pairs in thorough) + E5 step monitor: every call of '
        'frame.unmarshal runs under a monitor counting steps (function '
        'entries and jumps, i.e. every call and every loop iteration) inside '
        'pamqp/*; the call is abandoned and reported when it exceeds '
        '256 + 16*len(input) steps. Memory: tracemalloc peak <= 1 MiB '
        '+ 1024*len(input) on the rewrite/truncate/small-string cases. A '
        'case is one input; non-trivial = more than 12 steps executed (the '
        'decoder went past the envelope checks).'
        ' '
        'Also: scalar payloads around the limits of the Python types '
        'behind every tag (every millisecond of the two seconds '
        'around datetime.max, +-1001 around 15 other limits, decimal '
        'scales, NaN payloads, subnormals, wide integers) and content '
        'headers with 1..20000 chained flag words and 0..64 KiB of '
        'property data, under the same step and memory budgets.')
BOUNDS = {'quick': {'step_budget': '256 + 16*len', 'memory_budget':
                    '256 KiB + 64*len (length/tag rewrites, truncations, shapes, large values); retained <= 1 MiB'},
          'thorough': {'step_budget': '256 + 16*len', 'memory_budget':
                       '256 KiB + 64*len (all but small-string and pair tasks); retained <= 1 MiB'}}
ASSUMPTIONS = ['work is measured in steps = function entries + jumps executed '
               'inside pamqp (sys.monitoring); C-level work per step - '
               'slicing, UTF-8 decoding - is linear in the slice length and '
               'not counted',
               'inputs outside the enumerated fault spaces are not covered']
SELFTEST_TASK = ('truncate', 0)

_MON = None


def tasks(tier, seed):
    return fuzzspace.tasks(tier, seed)


def _decode(data):
    return lib.pamqp().frame.unmarshal(data)


def check_one(ctx, data, label, memory=False, retained=False):
    """One input: steps under the monitor; with memory=True the very same
    (first) call is also measured with tracemalloc - a second call could be
    served from whatever the first one left behind."""
    global _MON
    if _MON is None:
        lib.pamqp()             # import outside the monitored region
        _MON = steps.Monitor()
        try:                    # one-time allocations are not retention
            _decode(b'\x01\x00\x01\x00\x00\x00\x04\x00\x5a\x00\x0a\xce')
            _decode(b'\x02\x00\x01\x00\x00\x00\x0e\x00\x3c' + b'\x00' * 12 +
                    b'\xce')
        except Exception:  # noqa
            pass
    budget = 256 + 16 * len(data)
    if memory:
        if retained:
            gc.collect()
        tracemalloc.reset_peak()
        base = tracemalloc.get_traced_memory()[0]
    outcome, value, used = _MON.run(_decode, data, budget)
    ctx.calls()
    ctx.valid()
    if memory:
        peak = tracemalloc.get_traced_memory()[1] - base
        value = None
        if retained:
            gc.collect()
            kept = max(0, tracemalloc.get_traced_memory()[0] - base)
    if outcome != 'budget':
        ctx.peak('steps', used)
        ctx.peak('steps_minus_256_per_1000_bytes',
                 max(0, used - 256) * 1000 // max(1, len(data)))
    if outcome == 'budget':
        ctx.outcome('budget-exceeded')
        ctx.violation('steps|' + data.hex()[:400],
                      '{}: decoding {} bytes executed more than {} steps '
                      'without finishing (input {})'.format(
                          label, len(data), budget, data.hex()[:120]),
                      {'hex': data.hex(), 'label': label},
                      '<= %d steps' % budget, '> %d steps' % budget)
        return used
    ctx.outcome('returned' if outcome == 'ok' else 'raised')
    if memory:
        limit = (256 << 10) + 64 * len(data)
        ctx.peak('peak_bytes', peak)
        ctx.peak('peak_bytes_per_input_byte_x100',
                 peak * 100 // max(1, len(data)))
        ctx.count('memory_measured')
        if peak > limit:
            ctx.outcome('memory-exceeded')
            ctx.violation('memory|' + (data.hex()[:400] if len(data) < 4000
                                       else label),
                          '{}: decoding {} bytes allocated {} bytes (limit '
                          '{})'.format(label, len(data), peak, limit),
                          {'hex': data.hex() if len(data) < 4000 else None,
                           'label': label, 'memory': True},
                          '<= %d bytes' % limit, '%d bytes' % peak)
    if retained:
        ctx.peak('retained_bytes', kept)
        ctx.count('retention_measured')
        if kept > RETAINED_LIMIT:
            ctx.outcome('memory-retained')
            ctx.violation('retained|' + label,
                          '{}: {} bytes stay allocated after decoding {} '
                          'bytes and dropping the result (limit {})'.format(
                              label, kept, len(data), RETAINED_LIMIT),
                          {'hex': data.hex() if len(data) < 4000 else None,
                           'label': label, 'retained': True},
                          '<= %d bytes' % RETAINED_LIMIT, '%d bytes' % kept)
    return used


# What may stay allocated once the result is dropped: a constant, whatever
# the input (a bounded cache of a few hundred short strings is legitimate -
# wave 12's correct refactoring r12-r2 keeps 66 KB; 64 KiB was too tight and
# raised a false alarm on it)
RETAINED_LIMIT = 1 << 20


def run(task, ctx):
    # memory is measured where lengths are rewritten or data is cut (the
    # cases that can make a decoder allocate beyond its input); 16-bit
    # sweeps are measured in thorough only
    kinds = ('rewrite', 'truncate', 'shapes', 'short', 'large',
             'nested-short', 'siblings', 'shaped-nesting', 'flag-words',
             'scalar-limits')
    if ctx.tier == 'thorough':
        kinds += ('byte',)
    memory = task[0] in kinds and (ctx.tier == 'thorough' or len(task) < 4)
    # (a 'siblings' task is (kind, n): always measured)
    if memory:
        tracemalloc.start(1)
    elif tracemalloc.is_tracing():
        tracemalloc.stop()
    try:
        for label, data in fuzzspace.inputs(task, ctx.tier, ctx.seed):
            if ctx.outcomes.get('budget-exceeded', 0) >= 50:
                ctx.cap('a task was abandoned after 50 budget violations')
                break
            used = check_one(ctx, data, label, memory,
                             retained=task[0] == 'large')
            ctx.case(data, used > 12, sample=lambda: {
                'label': label, 'input': data[:48].hex(), 'len': len(data),
                'steps': used})
    finally:
        if tracemalloc.is_tracing():
            tracemalloc.stop()


def replay(case, ctx):
    tracemalloc.start(1)
    try:
        if case.get('hex') is None:
            # large generated input: find it again by its label
            for k in range(len(fuzzspace.LARGE_KINDS)):
                for label, data in fuzzspace.inputs(('large', k), 'thorough'):
                    if label == case.get('label'):
                        check_one(ctx, data, label, True, True)
            return
        check_one(ctx, bytes.fromhex(case['hex']), case.get('label', ''),
                  bool(case.get('memory') or case.get('retained')),
                  bool(case.get('retained')))
    finally:
        tracemalloc.stop()
