"""C18 - body, heartbeat and protocol-header frames round-trip."""
import itertools

from mc import alphabets as A
from mc import lib, refcodec

ID = 'C18'
LEVEL = 'model_checking'
RULE = ('E1: content bodies: all byte strings of length 1 and 2 (65792), all '
        'strings of length <= 6 (thorough 7) over the 9 symbols 00 01 03 08 '
        'ce A M Q P, lengths 7 8 255 256 4095 4096 65535 65536 131064 131072 '
        '131073 x 6 fill patterns (0xCE, AMQP, embedded frame, header '
        'look-alike at every alignment) x 7 channels; every length 1..4800 and '
        'within 24 of 8192..131072 x 3 fills; heartbeat on every '
        'channel of the alphabet; protocol header: each octet 0..255 with '
        'the others over 0 1 9 255 (quick) / the full 256^3 space '
        '(thorough). Each case: library bytes == reference bytes, decode '
        'gives identical content, channel and consumed == len. Non-trivial = '
        'all but body b"\\x00" on channel 0 / version 0.9.1. Body values '
        'given as other buffer objects (63 shapes: strided, N-dimensional, '
        'wide items, ctypes): whatever the encoder accepts, len(object) == '
        'bytes on the wire.')
BOUNDS = {'quick': {'small_bodies': 'len<=2 all, len<=6 over 9 symbols',
                    'versions': '3 x 256 x 16'},
          'thorough': {'small_bodies': 'len<=2 all, len<=7 over 9 symbols',
                       'versions': '256^3'}}
ASSUMPTIONS = ['bodies longer than 131073 bytes and byte contents outside the '
               'alphabets are represented by the fill patterns']
SYMS = b'\x00\x01\x03\x08\xceAMQP'
SELFTEST_TASK = ('hb',)


def tasks(tier, seed):
    out = [('b1',), ('hb',), ('big',), ('buffers',), ('frames-as-bodies',)]
    out += [('lengths', lo, lo + 600) for lo in range(0, 4800, 600)]
    out += [('lengths-far', 0, 0)]
    out += [('b2', hi) for hi in range(0, 256, 16)]
    maxlen = 7 if tier == 'thorough' else 6
    for a in range(len(SYMS)):
        for b in range(len(SYMS)):
            out.append(('small', a, b, maxlen))
    if tier == 'thorough':
        out += [('ph', major) for major in range(256)]
    else:
        out += [('phq', i) for i in range(3)]
    return out


def check_body(ctx, body, channel):
    p = lib.pamqp()
    case = {'kind': 'body', 'hex': body.hex() if len(body) <= 300 else None,
            'len': len(body), 'fill': body[:16].hex(), 'channel': channel}
    fp = 'body|%d|%d|%s' % (channel, len(body), body[:64].hex())
    bad = []
    try:
        obj = p.body.ContentBody(body)
        if len(obj) != len(body):
            bad.append('len(body object) {} != {}'.format(len(obj),
                                                          len(body)))
        data = p.frame.marshal(obj, channel)
        ctx.calls(2)
        want, _f = refcodec.enc_body_frame(body, channel)
        if data != want:
            bad.append('encoded bytes differ from the reference')
        consumed, ch, out = p.frame.unmarshal(data)
        ctx.calls()
        if consumed != len(data):
            bad.append('consumed {} != {}'.format(consumed, len(data)))
        if ch != channel:
            bad.append('channel {} != {}'.format(ch, channel))
        if lib.kind_of(out) != 'body':
            bad.append('decoded a ' + lib.kind_of(out))
        elif type(out.value) is not bytes or out.value != body:
            bad.append('body content changed: {} ...'.format(
                bytes(out.value[:24]).hex()))
        elif len(out) != len(body):
            bad.append('len(decoded body) {} != {}'.format(len(out),
                                                           len(body)))
    except Exception as exc:  # noqa
        bad.append('raised {!r}'.format(exc))
    ctx.valid()
    if bad:
        ctx.outcome('mismatch')
        ctx.violation(fp, 'body of {} bytes ({}...) on channel {}: {}'.format(
            len(body), body[:16].hex(), channel, '; '.join(bad)), case,
            'byte-identical round trip', bad)
    else:
        ctx.outcome('ok')


def buffer_values():
    """Byte content handed over as something other than ``bytes``: the frame
    is made of its bytes (C10 decides that); here, whatever the encoder
    accepts, the body object must report the byte length it puts on the
    wire."""
    import array
    import ctypes
    raw = bytes(range(1, 49))
    out = [bytearray(raw), bytearray(b'\xce'), memoryview(raw),
           memoryview(bytearray(raw)), memoryview(raw)[5:],
           memoryview(raw)[::2], memoryview(raw)[1::3], memoryview(raw)[::-1],
           memoryview(raw).cast('B', shape=[6, 8]),
           memoryview(raw).cast('B', shape=[6, 8])[::2],
           memoryview(raw).cast('H'), memoryview(raw).cast('I'),
           memoryview(raw).cast('Q'), memoryview(raw).cast('d'),
           memoryview(raw).cast('I', shape=[3, 4]),
           memoryview(raw).cast('H', shape=[2, 3, 4]),
           memoryview(b'x').cast('B', shape=[1, 1]),
           array.array('B', raw), array.array('b', [1, -1]),
           array.array('H', raw), array.array('I', raw), array.array('Q', raw),
           array.array('d', [1.5, -2.0, 0.0]), array.array('u', 'ab'),
           (ctypes.c_ubyte * 5)(1, 2, 3, 4, 5), (ctypes.c_uint32 * 3)(1, 2, 3),
           ctypes.c_int(5), ctypes.c_double(1.5),
           memoryview(ctypes.c_int(5)), memoryview(ctypes.c_uint16(513))]
    for n in (1, 2, 3, 7, 8, 9, 255, 256, 257, 4096, 65536):
        out.append(array.array('I', range(n)))
        out.append(memoryview(bytes(n * 8)).cast('Q'))
        out.append(bytearray(n))
    return out


def check_buffers(ctx):
    p = lib.pamqp()
    for no, buf in enumerate(buffer_values()):
        label = '#%d %s' % (no, type(buf).__name__)
        try:
            view = memoryview(buf)
            label += ' format=%s shape=%s contiguous=%s' % (
                view.format, list(view.shape), view.c_contiguous)
            content = view.tobytes()
        except (TypeError, ValueError, NotImplementedError):
            continue
        for channel in (1, 65535):
            ctx.case(('buffer', no, channel), True,
                     sample={'buffer': label, 'channel': channel})
            ctx.valid()
            try:
                obj = p.body.ContentBody(buf)
                data = p.frame.marshal(obj, channel)
                ctx.calls(2)
            except Exception:  # noqa - refusing such a value is the
                ctx.outcome('refused')   # encoder's right (C10)
                continue
            bad = []
            want, _f = refcodec.enc_body_frame(content, channel)
            if data != want:
                bad.append('frame is not made of the buffer\'s bytes')
            try:
                reported = len(obj)
            except Exception as exc:  # noqa
                reported = 'raised {!r}'.format(exc)
            sent = len(data) - 8
            if reported != sent:
                bad.append('len(body object) is {} but {} bytes are put on '
                           'the wire'.format(reported, sent))
            if bad:
                ctx.outcome('mismatch')
                ctx.violation('buffer|%s|%d' % (label, channel),
                              'body given as {} on channel {}: {}'.format(
                                  label, channel, '; '.join(bad)),
                              {'kind': 'buffer', 'no': no, 'label': label,
                               'channel': channel},
                              'reported length == byte length', bad)
            else:
                ctx.outcome('ok')


def check_version(ctx, major, minor, rev):
    p = lib.pamqp()
    bad = []
    try:
        data = p.frame.marshal(p.header.ProtocolHeader(major, minor, rev), 0)
        ctx.calls()
        want = b'AMQP\x00' + bytes([major, minor, rev])
        if data != want:
            bad.append('encoded {} != {}'.format(data.hex(), want.hex()))
        consumed, ch, out = p.frame.unmarshal(want)
        ctx.calls()
        if consumed != 8:
            bad.append('consumed {} != 8'.format(consumed))
        if (major + minor + rev) % 7 == 0 or rev == 0:
            # ... and the same with more data already in the buffer
            c2, _ch2, out2 = p.frame.unmarshal(want + b'\x01\x00')
            ctx.calls()
            if c2 != 8 or lib.kind_of(out2) != 'protocol' or \
                    (out2.major_version, out2.minor_version,
                     out2.revision) != (major, minor, rev):
                bad.append('with trailing bytes: consumed {}'.format(c2))
        if lib.kind_of(out) != 'protocol':
            bad.append('decoded a ' + lib.kind_of(out))
        elif (out.major_version, out.minor_version, out.revision) != \
                (major, minor, rev):
            bad.append('decoded version {}'.format((
                out.major_version, out.minor_version, out.revision)))
    except Exception as exc:  # noqa
        bad.append('raised {!r}'.format(exc))
    ctx.valid()
    if bad:
        ctx.outcome('mismatch')
        ctx.violation('version|%d.%d.%d' % (major, minor, rev),
                      'protocol header {}.{}.{}: {}'.format(
                          major, minor, rev, '; '.join(bad)),
                      {'kind': 'version', 'v': [major, minor, rev]},
                      'round trip', bad)
    else:
        ctx.outcome('ok')


def big_bodies():
    lengths = [7, 8, 255, 256, 4095, 4096, 65535, 65536, 131064, 131072,
               131073]
    frame = refcodec.enc_body_frame(b'xyz', 1)[0]
    look = b'\x01\x00\x01\x00\x00\x00\x04'
    for n in lengths:
        fills = [b'\xce' * n, (b'AMQP' * (n // 4 + 1))[:n],
                 (frame * (n // len(frame) + 1))[:n], bytes(n),
                 (bytes(range(256)) * (n // 256 + 1))[:n]]
        for align in range(min(7, n)):
            fills.append((b'\xff' * align + look * (n // 7 + 1))[:n])
        for f in fills:
            yield f


def run(task, ctx):
    kind = task[0]
    chans = A.CHANNEL
    if kind == 'frames-as-bodies':
        # a relay publishes what it read from another connection: the body
        # is a complete frame (any kind, this channel or another, nested)
        inner = [b'', b'x', b'hello world', b'\xce' * 9, bytes(300)]
        for ch in (0, 1, 2, 255, 256, 65535):
            made = [refcodec.enc_body_frame(i, ch)[0] for i in inner]
            made += [refcodec.enc_body_frame(made[2], ch)[0],
                     refcodec.enc_heartbeat_frame(ch)[0], refcodec.HEARTBEAT,
                     refcodec.enc_protocol_header(0, 9, 1),
                     refcodec.enc_header_frame(3, {'app_id': 'a'}, ch)[0],
                     b'\x01' + ch.to_bytes(2, 'big') +
                     b'\x00\x00\x00\x04\x00\x5a\x00\x0a\xce']
            for body in made:
                for variant in (body, body[:-1], body + b'\xce', body * 2):
                    if not variant:
                        continue
                    for on in (ch, 1, 7):
                        ctx.case((variant, on, 'frame-as-body'), True,
                                 sample=lambda: {'body': variant[:24].hex(),
                                                 'channel': on})
                        check_body(ctx, variant, on)
    elif kind == 'buffers':
        check_buffers(ctx)
    elif kind == 'b1':
        for v in range(256):
            for ch in chans:
                body = bytes([v])
                ctx.case((body, ch), not (v == 0 and ch == 0),
                         sample={'body': body.hex(), 'channel': ch})
                check_body(ctx, body, ch)
    elif kind == 'b2':
        for hi in range(task[1], task[1] + 16):
            for lo in range(256):
                body = bytes([hi, lo])
                ch = chans[(hi + lo + ctx.seed) % len(chans)]
                ctx.case((body, ch), True,
                         sample=lambda: {'body': body.hex(), 'channel': ch})
                check_body(ctx, body, ch)
    elif kind == 'small':
        a, b, maxlen = task[1:]
        prefix = bytes([SYMS[a], SYMS[b]])
        for n in range(1, maxlen - 1):
            for tup in itertools.product(SYMS, repeat=n):
                body = prefix + bytes(tup)
                ch = chans[(len(body) + tup[0] + ctx.seed) % len(chans)]
                ctx.case((body, ch), True,
                         sample=lambda: {'body': body.hex(), 'channel': ch})
                check_body(ctx, body, ch)
    elif kind in ('lengths', 'lengths-far'):
        # every body length of a range (interior values, not only limits)
        if kind == 'lengths':
            lengths = range(max(1, task[1]), task[2])
        else:
            lengths = sorted({n for p2 in (8192, 16384, 32768, 65536, 131072)
                              for n in range(p2 - 24, p2 + 25)})
        for n in lengths:
            for fill in (b'\xce', b'A', bytes([n % 251 + 1])):
                body = fill * n
                ch = chans[n % len(chans)]
                ctx.case((n, fill, ch), True, sample=lambda: {
                    'body_len': n, 'fill': fill.hex(), 'channel': ch})
                check_body(ctx, body, ch)
    elif kind == 'big':
        for body in big_bodies():
            for ch in chans:
                ctx.case((body, ch), True, sample=lambda: {
                    'body_len': len(body), 'fill': body[:12].hex(),
                    'channel': ch})
                check_body(ctx, body, ch)
    elif kind == 'hb':
        p = lib.pamqp()
        for ch in chans:
            ctx.case(('hb', ch), True, sample={'heartbeat_channel': ch})
            bad = []
            data = p.frame.marshal(p.heartbeat.Heartbeat(), ch)
            ctx.calls()
            if data != refcodec.HEARTBEAT:
                bad.append('heartbeat encodes to {}'.format(data.hex()))
            wire, _f = refcodec.enc_heartbeat_frame(ch)
            out = lib.unmarshal_outcome(wire)
            ctx.calls()
            ctx.valid()
            if out[0] != 'ok':
                bad.append('heartbeat on channel {} refused: {!r}'.format(
                    ch, out[1]))
            elif (out[1], out[2], lib.kind_of(out[3])) != (8, ch,
                                                           'heartbeat'):
                bad.append('decoded as {}'.format(
                    (out[1], out[2], lib.kind_of(out[3]))))
            if bad:
                ctx.violation('heartbeat|%d' % ch, '; '.join(bad),
                              {'kind': 'hb', 'channel': ch}, 'heartbeat', bad)
            else:
                ctx.outcome('ok')
    elif kind == 'ph':
        major = task[1]
        for minor in range(256):
            for rev in range(256):
                ctx.case((major, minor, rev), (major, minor, rev) !=
                         (0, 9, 1), sample=lambda: {'version':
                                                    [major, minor, rev]})
                check_version(ctx, major, minor, rev)
    elif kind == 'phq':
        pos = task[1]
        others = (0, 1, 9, 255)
        for v in range(256):
            for a in others:
                for b in others:
                    trip = [a, b]
                    trip.insert(pos, v)
                    ctx.case(tuple(trip), tuple(trip) != (0, 9, 1),
                             sample=lambda: {'version': trip})
                    check_version(ctx, *trip)


def replay(case, ctx):
    if case['kind'] == 'version':
        check_version(ctx, *case['v'])
    elif case['kind'] == 'body':
        if case.get('hex') is not None:
            check_body(ctx, bytes.fromhex(case['hex']), case['channel'])
        else:
            for body in big_bodies():
                if len(body) == case['len'] and \
                        body[:16].hex() == case['fill']:
                    check_body(ctx, body, case['channel'])
    elif case['kind'] == 'buffer':
        check_buffers(ctx)
        ctx.violations = [v for v in ctx.violations if v['case'] == case]
    else:
        run(('hb',), ctx)
