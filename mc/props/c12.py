"""C12 - encoding is deterministic, order-independent and does not mutate
its input."""
import itertools

from mc import alphabets as A
from mc import corpus, lib, refcodec, spec_table, values
from mc.canon import canon, fromjson, short, tojson

ID = 'C12'
LEVEL = 'model_checking'
RULE = ('E1: all 120 insertion orders of a 5-key table (keys chosen to '
        'collide in sort order: "" B a aa e-acute) crossed with all 6 orders '
        'of a 3-key table nested in an array nested in it (720), at every '
        'position a table occurs (encode.field_table, method argument, '
        'headers property, nested in array/table); all orders of every '
        'sub-multiset of 1-4 keys; all orders of every subset of 5 names '
        'longer than 128 characters that collide after truncation; every '
        'frame of the C01/C02 corpus and '
        'every C03 value encoded twice with a deep identity-and-content '
        'snapshot before/after. A case is (position, insertion order) or '
        '(frame, repeat); non-trivial = not the already-sorted order / not '
        'the default frame.'
        ' '
        'Also: permutations of 5 keys whose code-point order differs '
        'from their UTF-16 code-unit order; encodings compared across '
        'four PYTHONHASHSEED values.')
BOUNDS = {'quick': {'keys': 5, 'nested_keys': 3, 'frames': 'C01/C02 quick '
                    'corpus (<=2 deviations), C03 quick values'},
          'thorough': {'keys': 6, 'nested_keys': 3, 'frames': 'C01 full '
                       'products, C02 thorough, C03 thorough'}}
ASSUMPTIONS = ['ascending key order = Python str order (code points), which '
               'is also UTF-8 byte order']

KEYS5 = ['', 'B', 'a', 'aa', 'é']
KEYS6 = KEYS5 + ['a\x00']
# code-point order is not UTF-16 code-unit order: U+10000 (D800 DC00 in
# UTF-16) sorts after U+E000 and U+FFFF, not before them
KEYS_WIDE = ['\uffff', '\U00010000', '\ue000', '\U0010ffff', 'z']
VALS = [1, 'x', True, None, -129, 1.5]
SELFTEST_TASK = ('perm', 0)


def tasks(tier, seed):
    nkeys = 6 if tier == 'thorough' else 5
    out = [('perm', i) for i in range(nkeys)] + \
        [('perm', i, 'wide') for i in range(len(KEYS_WIDE))] + [('subsets',), ('long',), ('twins',), ('unordered',), ('hashseeds',)]
    if tier == 'thorough':
        out += [('m',) + t for t in corpus.method_tasks(tier)]
    else:
        out += [('m2', m.name) for m in spec_table.METHODS]
    out += [('h',) + tuple(t) for t in corpus.header_tasks(tier)]
    out += [('v',) + tuple(t) for t in values.value_tasks(tier)]
    return out


def snap(v, seen=None):
    """Deep identity-and-content snapshot (iteration order kept)."""
    t = type(v)
    if t is dict:
        return ('dict', id(v), tuple((snap(k), snap(x)) for k, x in
                                     v.items()))
    if t is list:
        return ('list', id(v), tuple(snap(x) for x in v))
    if t is bytearray:
        return ('bytearray', id(v), bytes(v))
    return ('leaf', canon(v))


def snap_frame(obj):
    kind = lib.kind_of(obj)
    if kind == 'method':
        names = list(type(obj).attributes())
        return (kind, id(obj), tuple((n, snap(getattr(obj, n, None)))
                                     for n in names))
    if kind == 'header':
        pr = obj.properties
        return (kind, id(obj), id(pr), obj.body_size, obj.weight,
                obj.class_id,
                tuple((n, snap(getattr(pr, n, None)))
                      for n, _t, _b in spec_table.PROPERTIES))
    return (kind, id(obj))


def build_table(order, nested_order, keys):
    inner_keys = ['z', 'a', 'm']
    inner = {}
    for i in nested_order:
        inner[inner_keys[i]] = VALS[i]
    t = {}
    for i in order:
        k = keys[i]
        t[k] = [inner, i] if k == 'a' else VALS[i % len(VALS)]
    return t


def check_orders(ctx, keys, first):
    p = lib.pamqp()
    n = len(keys)
    QD = spec_table.BY_NAME['Queue.Declare']
    rest = [i for i in range(n) if i != first]
    for tail in itertools.permutations(rest):
        order = (first,) + tail
        for nested in itertools.permutations(range(3)):
            t = build_table(order, nested, keys)
            is_sorted = list(order) == sorted(order, key=lambda i: keys[i]) \
                and list(nested) == [1, 2, 0]
            ctx.case(('perm', order, nested), not is_sorted,
                     sample=lambda: {'insertion_order': [keys[i] for i in
                                                         order],
                                     'nested_order': list(nested)})
            case = {'kind': 'perm', 'keys': keys, 'order': list(order),
                    'nested': list(nested)}
            fp = 'order|{}|{}'.format(order, nested)
            want_table = refcodec.enc_table(t)
            positions = [
                ('field_table', lambda: p.encode.field_table(t),
                 want_table),
                ('nested in array', lambda: p.encode.field_array([t]),
                 refcodec.enc_array([t])),
                ('method argument', lambda: p.frame.marshal(
                    p.commands.Queue.Declare(queue='q', arguments=t), 1),
                 refcodec.enc_method_frame(
                     QD, (0, 'q', False, False, False, False, False, t),
                     1)[0]),
                ('headers property', lambda: p.frame.marshal(
                    p.header.ContentHeader(0, 1, p.commands.Basic.Properties(
                        headers=t)), 1),
                 refcodec.enc_header_frame(1, {'headers': t}, 1)[0]),
            ]
            before = snap(t)
            for pos, enc, want in positions:
                try:
                    got1 = enc()
                    got2 = enc()
                    ctx.calls(2)
                except Exception as exc:  # noqa
                    ctx.violation(fp + pos, '{}: encoding raised {!r}'.format(
                        pos, exc), case, 'encoded', repr(exc))
                    continue
                ctx.valid()
                if got1 != got2:
                    ctx.violation(fp + pos + '|repeat', '{}: encoding the '
                                  'same table twice gave different bytes'
                                  .format(pos), case, got1.hex()[:200],
                                  got2.hex()[:200])
                elif got1 != want:
                    ctx.violation(fp + pos, '{}: insertion order {} gives {} '
                                  'but ascending key order gives {}'.format(
                                      pos, [keys[i] for i in order],
                                      got1.hex()[:160], want.hex()[:160]),
                                  case, want.hex()[:300], got1.hex()[:300])
                else:
                    ctx.outcome('ok')
            if snap(t) != before:
                ctx.violation(fp + '|mutated', 'encoding mutated its input '
                              'table (insertion order {})'.format(
                                  [keys[i] for i in order]), case,
                              short(before, 300), short(snap(t), 300))


def check_subsets(ctx):
    p = lib.pamqp()
    for r in range(1, 5):
        for combo in itertools.combinations(range(len(KEYS5)), r):
            base = None
            for order in itertools.permutations(combo):
                t = {KEYS5[i]: VALS[i] for i in order}
                ctx.case(('subset', order), list(order) != sorted(order),
                         sample=lambda: {'keys': [KEYS5[i] for i in order]})
                got = p.encode.field_table(t)
                ctx.calls()
                ctx.valid()
                want = refcodec.enc_table(t)
                if got != want or (base is not None and got != base):
                    ctx.violation('subset|{}'.format(order), 'table with '
                                  'insertion order {} encodes as {}, sorted '
                                  'reference {}'.format(
                                      [KEYS5[i] for i in order], got.hex(),
                                      want.hex()),
                                  {'kind': 'subset', 'order': list(order)},
                                  want.hex(), got.hex())
                else:
                    ctx.outcome('ok')
                base = base or got


LONG = 'a' * 128
LONG_KEYS = [LONG + 'x', LONG + 'y', LONG, 'b', LONG[:127] + 'é' + 'z']


def check_long_keys(ctx):
    """Names over 128 characters are truncated (documented); tables whose
    long names share their first 128 characters must still encode the same
    whatever the insertion order."""
    p = lib.pamqp()
    QD = spec_table.BY_NAME['Queue.Declare']
    for r in range(2, len(LONG_KEYS) + 1):
        for combo in itertools.combinations(range(len(LONG_KEYS)), r):
            base = {}
            for order in itertools.permutations(combo):
                t = {LONG_KEYS[i]: i for i in order}
                nested = {'outer': [t], 'zz': t}
                ctx.case(('long', order), list(order) != sorted(order),
                         sample=lambda: {'long_keys_order': list(order)})
                encs = {
                    'field_table': lambda: p.encode.field_table(t),
                    'nested': lambda: p.encode.field_table(nested),
                    'method argument': lambda: p.frame.marshal(
                        p.commands.Queue.Declare(queue='q', arguments=t), 1),
                }
                for pos, enc in encs.items():
                    try:
                        got = enc()
                        ctx.calls()
                    except Exception as exc:  # noqa
                        got = repr(exc).encode()
                    ctx.valid()
                    if pos == 'field_table':
                        want = refcodec.enc_table(t)
                    elif pos == 'nested':
                        want = refcodec.enc_table(nested)
                    else:
                        want = refcodec.enc_method_frame(
                            QD, (0, 'q', False, False, False, False, False,
                                 t), 1)[0]
                    first = base.setdefault(pos, got)
                    if got != first or got != want:
                        ctx.violation(
                            'longkeys|{}|{}'.format(pos, order),
                            '{}: table with colliding long names inserted '
                            'in order {} encodes differently from order {} '
                            '/ from the reference'.format(
                                pos, list(order), sorted(order)),
                            {'kind': 'long', 'order': list(order)},
                            want.hex()[-120:], got.hex()[-120:])
                    else:
                        ctx.outcome('ok')


_ZONE = []


def fold_twin(fold):
    import datetime
    import zoneinfo
    if not _ZONE:
        _ZONE.append(zoneinfo.ZoneInfo('Europe/London'))
    return datetime.datetime(2021, 10, 31, 1, 30, tzinfo=_ZONE[0], fold=fold)


def check_twins(ctx):
    """Equal-valued but distinct values side by side (Decimal('2.5') and
    Decimal('2.50'), 1 and True and 1.0): every entry keeps its own
    encoding whatever the order."""
    p = lib.pamqp()
    groups = [[A.D('2.5'), A.D('2.50'), A.D('2.500')],
              [1, True, 1.0, A.D('1')], [0, False, 0.0, A.D('0.00')],
              ['', bytearray(b'')], [A.dt(5), A.dt(5, None)],
              [0.0, -0.0], [fold_twin(0), fold_twin(1)],
              [A.dt(1600000000), A.dt(1600000000).astimezone(
                  A.FIXED_OFFSETS[0])]]
    for vals in groups:
        for r in (2, len(vals)):
            for order in itertools.permutations(range(len(vals)), r):
                t = {'k%d' % i: vals[i] for i in order}
                arr = [vals[i] for i in order]
                ctx.case(('twins', repr(vals[0]), order), True,
                         sample=lambda: {'twins': short(arr, 80)})
                for label, enc, want in (
                        ('field_table', lambda: p.encode.field_table(t),
                         refcodec.enc_table(t)),
                        ('field_array', lambda: p.encode.field_array(arr),
                         refcodec.enc_array(arr))):
                    try:
                        got = enc()
                        ctx.calls()
                    except Exception as exc:  # noqa
                        got = repr(exc).encode()
                    ctx.valid()
                    if got != want:
                        ctx.violation(
                            'twins|{}|{}|{}'.format(label, vals[0], order),
                            '{} of equal-valued entries {} encodes as {} '
                            'but each entry\'s own encoding gives {}'.format(
                                label, short(arr, 80), got.hex()[:120],
                                want.hex()[:120]),
                            {'kind': 'twins'}, want.hex()[:300],
                            got.hex()[:300])
                    else:
                        ctx.outcome('ok')


def check_unordered(ctx):
    """Collections other than dict and list as table values (sets, frozen
    sets, dict views, dict subclasses, mapping proxies, tuples, deques): the
    encoder need not accept them, but when it accepts two that compare EQUAL
    and differ only in the order they were filled in, it must produce the
    same bytes - at top level, nested, and through frame.marshal."""
    import collections
    import types
    p = lib.pamqp()
    # four elements: a CPython set of this size keeps its 8-slot table, where
    # 0, 8 and 16 collide, so the iteration order follows the insertion order
    elems = [0, 8, 16, 1]
    perms = [elems, elems[::-1], [8, 16, 1, 0], [16, 0, 8, 1]]
    pairs = [(k, 'v%s' % k) for k in ('z', 'a', 'm', 'B', 'é')]
    porders = [pairs, pairs[::-1], pairs[2:] + pairs[:2]]

    def builders():
        yield 'set', [set(o) for o in perms]
        yield 'frozenset', [frozenset(o) for o in perms]
        yield 'dict keys view', [dict.fromkeys(o).keys() for o in perms]
        yield 'dict items view', [dict(o).items() for o in porders]
        yield 'OrderedDict', [collections.OrderedDict(o) for o in porders]
        yield 'defaultdict', [collections.defaultdict(int, o)
                              for o in porders]
        yield 'mappingproxy', [types.MappingProxyType(dict(o))
                               for o in porders]
        yield 'Counter', [collections.Counter(dict((k, 1) for k, _v in o))
                          for o in porders]
        yield 'ChainMap', [collections.ChainMap(dict(o)) for o in porders]
        yield 'dict subclass', [type('Sub', (dict,), {})(o) for o in porders]

    for label, variants in builders():
        first = variants[0]
        for other in variants[1:]:
            try:
                equal = first == other
            except Exception:  # noqa
                equal = False
            if not equal:
                continue
            for pos, wrap in (('value', lambda v: {'k': v}),
                              ('nested', lambda v: {'t': {'n': [v]}, 'z': 1}),
                              ('frame', None)):
                ctx.case(('unordered', label, pos, repr(list(other))[:80]),
                         True, sample=lambda: {
                             'collection': label, 'position': pos,
                             'orders': [short(list(first), 50),
                                        short(list(other), 50)]})
                try:
                    if pos == 'frame':
                        a = p.frame.marshal(p.commands.Queue.Declare(
                            queue='q', arguments={'k': first}), 1)
                        b = p.frame.marshal(p.commands.Queue.Declare(
                            queue='q', arguments={'k': other}), 1)
                    else:
                        a = p.encode.field_table(wrap(first))
                        b = p.encode.field_table(wrap(other))
                    ctx.calls(2)
                except Exception:  # noqa
                    ctx.outcome('refused')
                    continue
                ctx.valid()
                if a != b:
                    ctx.violation(
                        'unordered|{}|{}|{}'.format(label, pos,
                                                    short(list(other), 60)),
                        'two equal {} values filled in different orders ({} '
                        'and {}) are both accepted at position {} but encode '
                        'differently: {} / {}'.format(
                            label, short(list(first), 60),
                            short(list(other), 60), pos, a.hex()[:100],
                            b.hex()[:100]), {'kind': 'unordered'},
                        a.hex()[:300], b.hex()[:300])
                else:
                    ctx.outcome('ok')


def check_hash_seeds(ctx):
    """The same list of values encoded in interpreters started with three
    different PYTHONHASHSEED values (a default interpreter picks one at
    random): one digest.  Encoding must not follow the iteration order of
    anything hashed by str."""
    import json
    import os
    import subprocess
    import sys
    digests = {}
    for seed in ('0', '1', '4242', '987654321'):
        env = dict(os.environ, PYTHONHASHSEED=seed)
        out = subprocess.run([sys.executable, '-m', 'mc.c12child'], env=env,
                             capture_output=True, text=True, timeout=600)
        ctx.case(('hashseed', seed), True, sample={'PYTHONHASHSEED': seed})
        ctx.calls()
        ctx.valid()
        try:
            rep = json.loads(out.stdout.strip().splitlines()[-1])
            digests[seed] = rep['digest']
            ctx.count('hash_seed_cases', rep['cases'])
        except Exception:  # noqa
            digests[seed] = 'child failed: ' + out.stderr[-300:]
    if len(set(digests.values())) != 1:
        ctx.outcome('hash-seed-dependent')
        ctx.violation('hashseeds', 'the encodings of one fixed list of values '
                      'differ between interpreters started with different '
                      'PYTHONHASHSEED values: %s' % (digests,),
                      {'kind': 'hashseeds'}, 'one digest', digests)
    else:
        ctx.outcome('ok')


def check_frame_twice(ctx, label, build, marshal, case):
    """build() -> object; marshal(obj) -> bytes.  Twice + non-mutation, and a
    freshly built equal object encodes identically."""
    try:
        obj = build()
        before = snap_frame(obj)
        a = marshal(obj)
        b = marshal(obj)
        c = marshal(build())
        ctx.calls(5)
    except Exception as exc:  # noqa   (refusals are C01/C02's business)
        ctx.outcome('refused')
        return
    ctx.valid()
    fp = 'twice|' + label
    if a != b or a != c:
        ctx.violation(fp, '{}: repeated encoding differs: {} / {} / {}'
                      .format(label, a.hex()[:100], b.hex()[:100],
                              c.hex()[:100]), case, a.hex()[:300],
                      b.hex()[:300])
    elif snap_frame(obj) != before:
        ctx.violation(fp + '|mutated', '{}: encoding changed the frame '
                      'object'.format(label), case, short(before, 300),
                      short(snap_frame(obj), 300))
    else:
        ctx.outcome('ok')


def check_value_twice(ctx, position, v):
    p = lib.pamqp()
    enc, arg = {
        'top': (p.encode.encode_table_value, v),
        'array': (p.encode.field_array, [v]),
        'table': (p.encode.field_table, {'k': v}),
    }[position]
    case = {'kind': 'value', 'position': position, 'value': tojson(v)}
    before = snap(arg)
    try:
        a = enc(arg)
        b = enc(arg)
        ctx.calls(2)
    except Exception:  # noqa
        ctx.outcome('refused')
        return
    ctx.valid()
    fp = 'value-twice|{}|{}'.format(position, short(v, 300))
    if a != b:
        ctx.violation(fp, 'value {} at {}: repeated encoding differs'.format(
            short(v, 200), position), case, a.hex()[:300], b.hex()[:300])
    elif snap(arg) != before:
        ctx.violation(fp + '|mutated', 'encoding mutated the value {} at {}'
                      .format(short(v, 200), position), case,
                      short(before, 300), short(snap(arg), 300))
    else:
        ctx.outcome('ok')


def run(task, ctx):
    p = lib.pamqp()
    kind = task[0]
    if kind == 'perm':
        keys = KEYS6 if ctx.tier == 'thorough' else KEYS5
        if len(task) > 2:
            keys = KEYS_WIDE
        check_orders(ctx, keys, task[1])
    elif kind == 'subsets':
        check_subsets(ctx)
    elif kind == 'long':
        check_long_keys(ctx)
    elif kind == 'unordered':
        check_unordered(ctx)
    elif kind == 'hashseeds':
        check_hash_seeds(ctx)
    elif kind == 'twins':
        check_twins(ctx)
    elif kind in ('m', 'm2'):
        if kind == 'm':
            it = ((m, vec, ch) for m, vec, ch, _i in
                  corpus.method_cases(task[1:], 'quick', ctx.seed))
        else:
            m = spec_table.BY_NAME[task[1]]
            it = ((m, vec, 1) for vec in corpus.dev_vectors(m, 2))
        for m, vec, ch in it:
            ctx.case(('m', m.name, canon(list(vec)), ch),
                     not corpus.is_default(m, vec),
                     sample=lambda: {'method': m.name,
                                     'vec': short(list(vec), 120)})
            check_frame_twice(
                ctx, '{}{}'.format(m.name, short(list(vec), 200)),
                lambda: corpus.construct(m, vec),
                lambda o: p.frame.marshal(o, ch),
                {'kind': 'method', 'method': m.name,
                 'vec': tojson(list(vec)), 'channel': ch})
    elif kind == 'h':
        for props, size, ch in corpus.header_cases(task[1:], ctx.tier,
                                                   ctx.seed):
            ctx.case(('h', canon(props), size, ch), bool(props))
            check_frame_twice(
                ctx, 'header{}'.format(short(props, 200)),
                lambda: corpus.construct_header(props, size),
                lambda o: p.frame.marshal(o, ch),
                {'kind': 'header', 'props': tojson(props), 'size': size,
                 'channel': ch})
    else:
        for v in values.values(task[1:], ctx.tier, ctx.seed):
            for position in values.POSITIONS:
                ctx.case(('v', position, canon(v)), True)
                check_value_twice(ctx, position, v)


def replay(case, ctx):
    p = lib.pamqp()
    kind = case['kind']
    if kind == 'perm':
        check_orders(ctx, case['keys'], case['order'][0])
        ctx.violations = [v for v in ctx.violations if v['case'] == case] \
            or ctx.violations
    elif kind == 'subset':
        check_subsets(ctx)
    elif kind == 'long':
        check_long_keys(ctx)
    elif kind == 'unordered':
        check_unordered(ctx)
    elif kind == 'hashseeds':
        check_hash_seeds(ctx)
    elif kind == 'twins':
        check_twins(ctx)
    elif kind == 'method':
        m = spec_table.BY_NAME[case['method']]
        vec = tuple(fromjson(case['vec']))
        check_frame_twice(ctx, m.name, lambda: corpus.construct(m, vec),
                          lambda o: p.frame.marshal(o, case['channel']), case)
    elif kind == 'header':
        props = fromjson(case['props'])
        check_frame_twice(ctx, 'header',
                          lambda: corpus.construct_header(props,
                                                          case['size']),
                          lambda o: p.frame.marshal(o, case['channel']), case)
    else:
        check_value_twice(ctx, case['position'], fromjson(case['value']))
