"""C09 - every decode failure is an UnmarshalingException."""
from mc import fuzzspace, lib, runner

ID = 'C09'
LEVEL = 'model_checking'
RULE = ('E4 fault enumerator over K_rep (85 reference-encoded frames of all '
        'kinds): every single-byte corruption (position x 256 values); every '
        'structural field rewritten over its equivalence classes (1-byte: '
        'all 256, 2-byte: all 65536 for headers and three method frames / '
        'all frames in thorough, 4-byte lengths 0..R+2 and 2^31-1, 2^31, '
        '2^32-1); every payload truncation with corrected envelope size; all '
        'byte strings of length <= 3 over a 28-symbol alphabet and of length '
        '4 over 12 symbols (thorough: length <= 5 over all 28) '
        'inside 5 valid envelopes; header-shape product; pairs of '
        'corruptions on structural positions (thorough); truncations, short '
        'strings and header shapes again with debug logging switched on. A case is one input '
        'byte string; distinct by content; non-trivial = the decoder got '
        'past the envelope checks (returned a frame or failed inside a '
        'content decoder).'
        ' '
        'Also: scalar payloads around the limits of the Python types '
        'behind every tag and content headers with 1..20000 chained '
        'flag words (terminated or not); import probes and -bb / -OO '
        '-bb child interpreters repeat the error-path tasks with '
        'debug logging and with warnings raised as errors.')
BOUNDS = {'quick': {'small_string_len': '3 (28 symbols), 4 (12 symbols)',
                    'full16': '2 headers + 1 method',
                    'pairs': 'none'},
          'thorough': {'small_string_len': 5, 'full16': 'all frames',
                       'pairs': 'structural positions x 6 sharp values'}}
ASSUMPTIONS = ['inputs outside the enumerated fault spaces (three or more '
               'simultaneous corruptions, longer random strings) are not '
               'covered', 'nesting depth <= 64']

ENVELOPE_MESSAGES = ('No frame size', 'Not all data received',
                     'Last byte error')


SELFTEST_TASK = ('truncate', 0)


def tasks(tier, seed):
    base = fuzzspace.tasks(tier, seed)
    # truncations, short strings and header shapes again with debug logging on
    debug = [('debug-logging',) + t for t in base
             if t[0] in ('truncate', 'short', 'shapes', 'nested-short',
                         'hostile-names')]
    # every representative frame and its payload truncations once more in a
    # process that raises warnings as errors (-W error): a frame a peer may
    # send (a deprecated method, say) must still not make anything but
    # UnmarshalingException escape
    strict = [('warnings-as-errors',) + t for t in base
              if t[0] == 'truncate'] + [('warnings-as-errors', 'intact')]
    return base + debug + strict


def check_one(ctx, data, label):
    p = lib.pamqp()
    try:
        p.frame.unmarshal(data)
        ctx.outcome('frame')
        return True
    except p.exceptions.UnmarshalingException as exc:
        deep = not (len(exc.args) > 1 and exc.args[1] in ENVELOPE_MESSAGES)
        ctx.outcome('unmarshaling-exception')
        return deep
    except runner.Hang:
        ctx.outcome('hang')
        ctx.violation('escape|hang|' + data.hex()[:400],
                      '{}: decoding did not terminate ({})'.format(
                          label, data.hex()[:120]),
                      {'hex': data.hex(), 'label': label},
                      'frame or UnmarshalingException', 'no termination')
        return True
    except BaseException as exc:  # noqa
        name = type(exc).__name__
        ctx.outcome('escaped:' + name)
        ctx.violation('escape|{}|{}'.format(name, data.hex()[:400]),
                      '{}: {} escaped from frame.unmarshal: {!r} '
                      '(input {})'.format(label, name, exc,
                                          data.hex()[:120]),
                      {'hex': data.hex(), 'label': label},
                      'frame or UnmarshalingException', repr(exc))
        return True


def env_tasks(tier, seed):
    """What is repeated in an interpreter started with other flags (-bb):
    truncations, short strings, header shapes, every value of every one-byte
    field (type tags, string lengths, bit octets) of the representative
    frames - with and without debug logging."""
    base = fuzzspace.tasks(tier, seed)
    pick = [t for t in base
            if t[0] in ('truncate', 'short', 'shapes', 'nested-short',
                        'hostile-names') or
            (t[0] == 'rewrite' and len(t) == 3)]
    strict = [('warnings-as-errors',) + t for t in base
              if t[0] == 'truncate'] + [('warnings-as-errors', 'intact')]
    return pick + [('debug-logging',) + t for t in pick] + strict


def run(task, ctx):
    if task[0] == 'warnings-as-errors':
        with lib.warnings_as_errors():
            if task[1] == 'intact':
                ctx.rearm(4)
                for label, data, _fields in fuzzspace.krep():
                    label += ' [warnings raised as errors]'
                    deep = check_one(ctx, data, label)
                    ctx.case((data, 'W'), deep, sample=lambda: {
                        'label': label, 'input': data[:48].hex(),
                        'len': len(data)})
                    ctx.calls()
                    ctx.valid()
            else:
                run_inputs(task[1:], ctx, ' [warnings raised as errors]')
    elif task[0] == 'debug-logging':
        # process environment: the same inputs with debug logging on
        with lib.debug_logging():
            run_inputs(task[1:], ctx, ' [debug logging on]')
    else:
        run_inputs(task, ctx, '')


def run_inputs(task, ctx, env):
    ctx.rearm(4)      # short watchdog: inputs that hang are reported singly
    for label, data in fuzzspace.inputs(task, ctx.tier, ctx.seed):
        label += env
        if ctx.outcomes.get('hang', 0) >= 3:
            ctx.cap('a task was abandoned after 3 non-terminating inputs')
            break
        deep = check_one(ctx, data, label)
        if ctx.outcomes.get('hang'):
            ctx.rearm(4)
        ctx.case((data, env) if env else data, deep,
                 sample=lambda: {'label': label,
                                             'input': data[:48].hex(),
                                             'len': len(data)})
        ctx.calls()
        ctx.valid()


def replay(case, ctx):
    import contextlib
    env = lib.debug_logging() if '[debug logging on]' in case.get(
        'label', '') else lib.warnings_as_errors() \
        if '[warnings raised as errors]' in case.get('label', '') \
        else contextlib.nullcontext()
    try:
        with env, runner.guard(20):
            check_one(ctx, bytes.fromhex(case['hex']), case.get('label', ''))
    except runner.Hang:
        ctx.violation('escape|hang', 'decoding did not terminate', case,
                      'termination', 'hang')
