"""C04 - encoded bytes equal the independent AMQP 0-9-1 reference encoder."""
from mc import alphabets as A
from mc import corpus, lib, refcodec, spec_table, values
from mc.canon import canon, fromjson, short, tojson

ID = 'C04'
LEVEL = 'model_checking'
RULE = ('Union of the C01 (method product + dense interior sweeps), C02 '
        '(header) and C03 (field value) spaces plus bodies, heartbeat and protocol headers; every '
        'output of frame.marshal, Frame.marshal(), Basic.Properties.marshal()'
        ' and encode.field_table/field_array/encode_table_value is compared '
        'byte for byte with mc.refcodec (written from the grammar, imports '
        'nothing from pamqp). A case is (entry point, input); non-trivial = '
        'not the all-default input.')
BOUNDS = {'quick': {'same as': 'C01 + C02 + C03 quick'},
          'thorough': {'same as': 'C01 + C02 + C03 thorough'}}
ASSUMPTIONS = ['mc/refcodec.py follows the AMQP 0-9-1 grammar and the '
               'RabbitMQ errata; domain is the spec-valid one (longlong '
               '0..2^63-1)']


def tasks(tier, seed):
    return ([('m',) + t for t in corpus.method_tasks(tier)] +
            [('h',) + tuple(t) for t in corpus.header_tasks(tier)] +
            [('v',) + tuple(t) for t in values.value_tasks(tier)] +
            [('misc',)] +
            [('dense',) + t for t in corpus.dense_tasks(tier)])


def first_diff(a, b, fields):
    n = min(len(a), len(b))
    pos = next((i for i in range(n) if a[i] != b[i]), n)
    where = 'offset %d' % pos
    for off, width, kind in fields or []:
        if off <= pos < off + width:
            where += ' (field %s at %d)' % (kind, off)
            break
    return where


def report(ctx, fp, what, case, want, got, fields=None):
    ctx.valid()
    if want == got:
        ctx.outcome('ok')
        return
    ctx.outcome('mismatch')
    ctx.violation(fp, '{}: bytes differ from the reference at {}: library {} '
                  'reference {}'.format(what, first_diff(got, want, fields),
                                        got.hex()[:120], want.hex()[:120]),
                  case, want.hex()[:400], got.hex()[:400])


def check_method(ctx, m, vec, channel):
    p = lib.pamqp()
    case = corpus.case_mark({'kind': 'method', 'method': m.name,
                             'vec': tojson(list(vec)), 'channel': channel})
    fp = 'bytes|{}|{}|{}'.format(m.name, channel, short(list(vec), 400))
    try:
        want, fields = refcodec.enc_method_frame(m, vec, channel)
    except refcodec.RefError:
        return  # outside the reference domain (negative longlong etc.)
    try:
        obj = corpus.construct(m, vec)
        got = p.frame.marshal(obj, channel)
        payload = obj.marshal()
        ctx.calls(3)
    except Exception as exc:  # noqa
        ctx.outcome('encode-raised')
        ctx.violation(fp, '{} refused spec-valid vector {}: {!r}'.format(
            m.name, short(list(vec), 300), exc), case, 'accepted', repr(exc))
        return
    report(ctx, fp, '{} ch={} {}'.format(m.name, channel,
                                         short(list(vec), 200)),
           case, want, got, fields)
    if payload != want[11:-1]:
        ctx.violation(fp + '|payload', '{}: Frame.marshal() payload differs '
                      'from the reference argument list'.format(m.name),
                      case, want[11:-1].hex()[:400], payload.hex()[:400])


def check_header(ctx, props, size, channel):
    p = lib.pamqp()
    case = {'kind': 'header', 'props': tojson(props), 'body_size': size,
            'channel': channel}
    fp = 'bytes|header|{}|{}|{}'.format(size, channel, short(props, 400))
    want, fields = refcodec.enc_header_frame(size, props, channel)
    try:
        obj = corpus.construct_header(props, size)
        got = p.frame.marshal(obj, channel)
        pbytes = obj.properties.marshal()
        hbytes = obj.marshal()
        ctx.calls(4)
    except Exception as exc:  # noqa
        ctx.outcome('encode-raised')
        ctx.violation(fp, 'header {} refused: {!r}'.format(short(props, 300),
                                                           exc), case,
                      'accepted', repr(exc))
        return
    report(ctx, fp, 'header props={} size={} ch={}'.format(
        short(props, 200), size, channel), case, want, got, fields)
    if pbytes != want[19:-1]:
        ctx.violation(fp + '|props', 'Basic.Properties.marshal() differs from '
                      'the reference property list for {}'.format(
                          short(props, 200)), case, want[19:-1].hex()[:400],
                      pbytes.hex()[:400])
    if hbytes != want[7:-1]:
        ctx.violation(fp + '|payload', 'ContentHeader.marshal() differs from '
                      'the reference payload for {}'.format(
                          short(props, 200)), case, want[7:-1].hex()[:400],
                      hbytes.hex()[:400])


def check_value(ctx, position, v, legacy=False):
    p = lib.pamqp()
    case = {'kind': 'value', 'position': position, 'value': tojson(v)}
    fp = 'bytes|value|{}|{}'.format(position, short(v, 400))
    try:
        if position == 'top':
            want = refcodec.enc_value(v)
            enc, arg = p.encode.encode_table_value, v
        elif position == 'array':
            want = refcodec.enc_array([v])
            enc, arg = p.encode.field_array, [v]
        else:
            want = refcodec.enc_table({'k': v})
            enc, arg = p.encode.field_table, {'k': v}
    except (refcodec.RefError, OverflowError):
        return
    try:
        got = enc(arg)
        ctx.calls()
    except Exception as exc:  # noqa
        ctx.outcome('encode-raised')
        ctx.violation(fp, 'encoder refused {} at {}: {!r}'.format(
            short(v, 300), position, exc), case, 'accepted', repr(exc))
        return
    report(ctx, fp, 'value {} at {}'.format(short(v, 200), position), case,
           want, got)


def check_misc(ctx):
    p = lib.pamqp()
    bodies = [b'\x00', b'\xce', b'AMQP', refcodec.HEARTBEAT, b'a' * 4096,
              bytes(range(256)) * 3, b'\x01\x00\x01\x00\x00\x00\x04',
              b'x' * 131064]
    for b in bodies:
        for ch in A.CHANNEL:
            key = ('body', b, ch)
            ctx.case(key, True)
            want, fields = refcodec.enc_body_frame(b, ch)
            got = p.frame.marshal(p.body.ContentBody(b), ch)
            ctx.calls()
            report(ctx, 'bytes|body|%d|%s' % (ch, b[:16].hex()),
                   'body len %d ch %d' % (len(b), ch),
                   {'kind': 'body', 'hex': b.hex() if len(b) < 600 else None,
                    'len': len(b), 'channel': ch}, want, got, fields)
    for ch in A.CHANNEL:
        ctx.case(('hb', ch), ch != 0)
        got = p.frame.marshal(p.heartbeat.Heartbeat(), ch)
        ctx.calls()
        # a heartbeat is only ever sent on channel 0: the frame is fixed
        report(ctx, 'bytes|heartbeat|%d' % ch, 'heartbeat',
               {'kind': 'heartbeat', 'channel': ch}, refcodec.HEARTBEAT, got)
    for major in (0, 1, 9, 255):
        for minor in (0, 9, 206, 255):
            for rev in (0, 1, 8, 255):
                ctx.case(('ph', major, minor, rev), True)
                want = refcodec.enc_protocol_header(major, minor, rev)
                got = p.frame.marshal(
                    p.header.ProtocolHeader(major, minor, rev), 0)
                ctx.calls()
                report(ctx, 'bytes|protocol|%d.%d.%d' % (major, minor, rev),
                       'protocol header', {'kind': 'protocol', 'version':
                                           [major, minor, rev]}, want, got)
    # sample for the evidence
    ctx.samples.append({'kind': 'misc', 'bodies': len(bodies),
                        'channels': len(A.CHANNEL)})


def run(task, ctx):
    kind = task[0]
    if kind == 'dense':
        for m, vec, ch in corpus.dense_cases(task[1:], ctx.tier):
            ctx.case(('m', m.name, canon(list(vec)), ch), True,
                     sample=lambda: {'method': m.name,
                                     'vec': short(list(vec), 120),
                                     'channel': ch, 'dense': task[1]})
            check_method(ctx, m, vec, ch)
    elif kind == 'm':
        for m, vec, ch, _i in corpus.method_cases(task[1:], ctx.tier,
                                                  ctx.seed):
            ctx.case(('m', m.name, canon(list(vec)), ch),
                     not (corpus.is_default(m, vec) and ch == 0),
                     sample=lambda: {'method': m.name,
                                     'vec': short(list(vec), 160),
                                     'channel': ch})
            if ctx.evaluations % 29 == 0:
                corpus.disturb()     # explore from a non-initial state too
                corpus.DISTURBED = True
                ctx.count('disturbed')
            check_method(ctx, m, vec, ch)
    elif kind == 'h':
        for props, size, ch in corpus.header_cases(task[1:], ctx.tier,
                                                   ctx.seed):
            ctx.case(('h', canon(props), size, ch),
                     bool(props) or size != 0 or ch != 0,
                     sample=lambda: {'props': short(props, 160),
                                     'body_size': size, 'channel': ch})
            check_header(ctx, props, size, ch)
    elif kind == 'v':
        for v in values.values(task[1:], ctx.tier, ctx.seed):
            for position in values.POSITIONS:
                ctx.case(('v', position, canon(v)), True,
                         sample=lambda: {'position': position,
                                         'value': short(v, 160)})
                check_value(ctx, position, v)
    else:
        check_misc(ctx)


def replay(case, ctx):
    corpus.replay_prepare(case)
    kind = case['kind']
    if kind == 'method':
        check_method(ctx, spec_table.BY_NAME[case['method']],
                     tuple(fromjson(case['vec'])), case['channel'])
    elif kind == 'header':
        check_header(ctx, fromjson(case['props']), case['body_size'],
                     case['channel'])
    elif kind == 'value':
        check_value(ctx, case['position'], fromjson(case['value']))
    else:
        check_misc(ctx)
