"""C04 - encoded bytes equal the independent AMQP 0-9-1 reference encoder."""
import copy
import datetime
import decimal
import struct

from mc import alphabets as A
from mc import corpus, lib, refcodec, spec_table, values
from mc.canon import canon, fromjson, short, tojson

ID = 'C04'
LEVEL = 'model_checking'
RULE = ('Union of the C01 (method product + dense interior sweeps), C02 '
        '(header) and C03 (field value) spaces plus bodies, heartbeat and protocol headers; every '
        'output of frame.marshal, Frame.marshal(), Basic.Properties.marshal()'
        ' and encode.field_table/field_array/encode_table_value is compared '
        'byte for byte with mc.refcodec (written from the grammar, imports '
        'nothing from pamqp). A case is (entry point, input); non-trivial = '
        'not the all-default input.'
        ' '
        'Also: field names held in str subclasses ((str, Enum) '
        'members whose names sort opposite to their values, StrEnum, '
        '__str__/__repr__/__format__ overriders), every rotation of '
        '1..5 keys, in tables, nested tables, arguments and headers, '
        'against the reference bytes of the plain texts; 80 '
        'look-alike strings in every string position; arrays of '
        'same-keyed dicts; key pairs whose code-point and UTF-16 '
        'orders differ.')
BOUNDS = {'quick': {'same as': 'C01 + C02 + C03 quick'},
          'thorough': {'same as': 'C01 + C02 + C03 thorough'}}
ASSUMPTIONS = ['mc/refcodec.py follows the AMQP 0-9-1 grammar and the '
               'RabbitMQ errata; domain is the spec-valid one (longlong '
               '0..2^63-1)']


def tasks(tier, seed):
    return ([('m',) + t for t in corpus.method_tasks(tier)] +
            [('h',) + tuple(t) for t in corpus.header_tasks(tier)] +
            [('v',) + tuple(t) for t in values.value_tasks(tier)] +
            [('misc',), ('subclasses',), ('key-subclasses',)] +
            values.codepoint_tasks() +
            [('reuse', m.name, src) for m in spec_table.METHODS if m.args
             for src in ('constructed', 'decoded')] +
            [('reuse', 'header', 'constructed'),
             ('reuse', 'header', 'decoded')] +
            [('dense',) + t for t in corpus.dense_tasks(tier)])


def first_diff(a, b, fields):
    n = min(len(a), len(b))
    pos = next((i for i in range(n) if a[i] != b[i]), n)
    where = 'offset %d' % pos
    for off, width, kind in fields or []:
        if off <= pos < off + width:
            where += ' (field %s at %d)' % (kind, off)
            break
    return where


def report(ctx, fp, what, case, want, got, fields=None):
    ctx.valid()
    if want == got:
        ctx.outcome('ok')
        return
    ctx.outcome('mismatch')
    ctx.violation(fp, '{}: bytes differ from the reference at {}: library {} '
                  'reference {}'.format(what, first_diff(got, want, fields),
                                        got.hex()[:120], want.hex()[:120]),
                  case, want.hex()[:400], got.hex()[:400])


def check_method(ctx, m, vec, channel):
    p = lib.pamqp()
    case = corpus.case_mark({'kind': 'method', 'method': m.name,
                             'vec': tojson(list(vec)), 'channel': channel})
    fp = 'bytes|{}|{}|{}'.format(m.name, channel, short(list(vec), 400))
    try:
        want, fields = refcodec.enc_method_frame(m, vec, channel)
    except refcodec.RefError:
        return  # outside the reference domain (negative longlong etc.)
    try:
        obj = corpus.construct(m, vec)
        got = p.frame.marshal(obj, channel)
        payload = obj.marshal()
        ctx.calls(3)
    except Exception as exc:  # noqa
        if corpus.beyond_domain(vec):
            ctx.outcome('refused-beyond-depth-32')
            return
        ctx.outcome('encode-raised')
        ctx.violation(fp, '{} refused spec-valid vector {}: {!r}'.format(
            m.name, short(list(vec), 300), exc), case, 'accepted', repr(exc))
        return
    report(ctx, fp, '{} ch={} {}'.format(m.name, channel,
                                         short(list(vec), 200)),
           case, want, got, fields)
    if payload != want[11:-1]:
        ctx.violation(fp + '|payload', '{}: Frame.marshal() payload differs '
                      'from the reference argument list'.format(m.name),
                      case, want[11:-1].hex()[:400], payload.hex()[:400])


def check_header(ctx, props, size, channel):
    p = lib.pamqp()
    case = {'kind': 'header', 'props': tojson(props), 'body_size': size,
            'channel': channel}
    fp = 'bytes|header|{}|{}|{}'.format(size, channel, short(props, 400))
    want, fields = refcodec.enc_header_frame(size, props, channel)
    try:
        obj = corpus.construct_header(props, size)
        got = p.frame.marshal(obj, channel)
        pbytes = obj.properties.marshal()
        hbytes = obj.marshal()
        ctx.calls(4)
    except Exception as exc:  # noqa
        ctx.outcome('encode-raised')
        ctx.violation(fp, 'header {} refused: {!r}'.format(short(props, 300),
                                                           exc), case,
                      'accepted', repr(exc))
        return
    report(ctx, fp, 'header props={} size={} ch={}'.format(
        short(props, 200), size, channel), case, want, got, fields)
    if pbytes != want[19:-1]:
        ctx.violation(fp + '|props', 'Basic.Properties.marshal() differs from '
                      'the reference property list for {}'.format(
                          short(props, 200)), case, want[19:-1].hex()[:400],
                      pbytes.hex()[:400])
    if hbytes != want[7:-1]:
        ctx.violation(fp + '|payload', 'ContentHeader.marshal() differs from '
                      'the reference payload for {}'.format(
                          short(props, 200)), case, want[7:-1].hex()[:400],
                      hbytes.hex()[:400])


def check_value(ctx, position, v, legacy=False):
    p = lib.pamqp()
    case = {'kind': 'value', 'position': position, 'value': tojson(v)}
    fp = 'bytes|value|{}|{}'.format(position, short(v, 400))
    try:
        if position == 'top':
            want = refcodec.enc_value(v)
            enc, arg = p.encode.encode_table_value, v
        elif position == 'array':
            want = refcodec.enc_array([v])
            enc, arg = p.encode.field_array, [v]
        else:
            want = refcodec.enc_table({'k': v})
            enc, arg = p.encode.field_table, {'k': v}
    except (refcodec.RefError, OverflowError):
        return
    try:
        got = enc(arg)
        ctx.calls()
    except Exception as exc:  # noqa
        if corpus.beyond_domain([arg]):
            ctx.outcome('refused-beyond-depth-32')
            return
        ctx.outcome('encode-raised')
        ctx.violation(fp, 'encoder refused {} at {}: {!r}'.format(
            short(v, 300), position, exc), case, 'accepted', repr(exc))
        return
    report(ctx, fp, 'value {} at {}'.format(short(v, 200), position), case,
           want, got)


def subclass_values():
    """(label, instance of a subclass, the plain value it stands for)."""
    import collections
    import enum

    class Level(enum.IntEnum):
        LOW = 5
        MID = 40000
        HIGH = 3000000000
        NEG = -129

    class Flag(enum.IntFlag):
        A = 1
        B = 128

    class Text(str):
        pass

    class Name(str, enum.Enum):
        X = 'x-value'

    class Money(decimal.Decimal):
        pass

    class Stamp(datetime.datetime):
        pass

    class Blob(bytearray):
        pass

    class Num(float):
        pass

    class Items(list):
        pass

    class Table(dict):
        pass

    for m in Level:
        yield 'IntEnum', m, int(m)
    yield 'IntFlag', Flag.A | Flag.B, 129
    yield 'int subclass', type('Mine', (int,), {})(70000), 70000
    yield 'str subclass', Text('héllo'), 'héllo'
    yield 'str subclass (empty)', Text(''), ''
    yield 'str Enum', Name.X, 'x-value'
    yield 'Decimal subclass', Money('-1.50'), decimal.Decimal('-1.50')
    yield 'datetime subclass', Stamp(2020, 1, 2, 3, 4, 5), A.dt(1577934245)
    yield 'bytearray subclass', Blob(b'\x00\xce'), bytearray(b'\x00\xce')
    yield 'float subclass', Num(1.5), 1.5
    yield 'list subclass', Items([1, Items(['a'])]), [1, ['a']]
    yield 'dict subclass', Table(b=Table(c=1), a=2), {'b': {'c': 1}, 'a': 2}
    yield 'OrderedDict', collections.OrderedDict([('z', 1), ('a', [2])]), \
        {'z': 1, 'a': [2]}
    yield 'defaultdict', collections.defaultdict(list, {'k': [1]}), \
        {'k': [1]}
    yield 'Counter', collections.Counter({'x': 3}), {'x': 3}


def check_subclass_values(ctx):
    """Instances of subclasses of the encodable types, in both ladders: the
    encoder may refuse them, but what it accepts must be the bytes of the
    plain value they stand for (an encoder chosen once per type, or by exact
    type, shows here)."""
    p = lib.pamqp()
    for seq in ((False, True, False), (True, False, True)):
      vals = list(subclass_values())    # the same classes across a sequence
      for step, legacy in enumerate(seq):
        p.encode.support_deprecated_rabbitmq(legacy)
        try:
            for label, inst, plain in vals:
                for position, enc, arg, want in (
                        ('top', p.encode.encode_table_value, inst,
                         lambda: refcodec.enc_value(plain, legacy)),
                        ('array', p.encode.field_array, [inst, [inst]],
                         lambda: refcodec.enc_array([plain, [plain]],
                                                    legacy)),
                        ('table', p.encode.field_table, {'k': inst},
                         lambda: refcodec.enc_table({'k': plain}, legacy))):
                    ctx.case(('subclass', label, seq, step, position,
                              repr(plain)[:60]), True, sample=lambda: {
                                  'value': label + ' ' + short(plain, 40),
                                  'position': position, 'legacy': legacy})
                    try:
                        got = enc(arg)
                        ctx.calls()
                    except Exception:  # noqa
                        ctx.outcome('subclass-refused')
                        continue
                    ctx.valid()
                    w = want()
                    if got != w:
                        ctx.outcome('mismatch')
                        ctx.violation(
                            'bytes|subclass|{}|{}|{}|{}'.format(
                                label, legacy, position, short(plain, 60)),
                            '{} standing for {} at {} (legacy={}) is '
                            'accepted but encodes as {} where the plain '
                            'value gives {}'.format(
                                label, short(plain, 60), position, legacy,
                                got.hex()[:80], w.hex()[:80]),
                            {'kind': 'subclasses'}, w.hex()[:300],
                            got.hex()[:300])
                    else:
                        ctx.outcome('ok')
        finally:
            p.encode.support_deprecated_rabbitmq(False)


def key_classes():
    """Field names held in str SUBCLASSES, as applications keep them: one
    enum of header names (the (str, Enum) mixin: str() is 'Class.MEMBER', not
    the text; member names chosen to sort opposite to their values), a
    StrEnum, subclasses overriding __str__ / __repr__ / __format__."""
    import enum

    class Hdr(str, enum.Enum):
        ZONE = 'attempt'
        YEAR = 'content-origin'
        XRAY = 'x-origin'
        ALPHA = 'x-retries'
        BETA = 'Zone'

    class Loud(str):
        def __str__(self):
            return 'LOUD<%s>' % str.__str__(self)

        def __repr__(self):
            return 'Loud()'

        def __format__(self, spec):
            return 'formatted'

    class Plain(str):
        pass

    kinds = [('(str, Enum) members', list(Hdr)),
             ('str subclass overriding __str__', [Loud(m.value) for m in Hdr]),
             ('plain str subclass', [Plain(m.value) for m in Hdr])]
    if hasattr(enum, 'StrEnum'):
        Names = enum.StrEnum('Names', {'Z': 'a-first', 'A': 'z-last',
                                       'M': 'middle'})
        kinds.append(('StrEnum members', list(Names)))
    return kinds


def check_key_subclasses(ctx):
    """What goes on the wire is the name's text, in the order of the texts -
    or the table is refused."""
    p = lib.pamqp()
    QD = spec_table.BY_NAME['Queue.Declare']
    for label, keys in key_classes():
        texts = [str.__str__(k) for k in keys]
        for n in range(1, len(keys) + 1):
            for rot in range(n):
                ks = (keys[:n])[rot:] + (keys[:n])[:rot]
                ts = [str.__str__(k) for k in ks]
                mixed = {k: i for i, k in enumerate(ks)}
                mixed['plain'] = 'p'
                plain = dict({t: i for i, t in enumerate(ts)}, plain='p')
                shapes = [
                    ('table', lambda: p.encode.field_table(dict(mixed)),
                     lambda: refcodec.enc_table(plain)),
                    ('nested', lambda: p.encode.field_table(
                        {'n': dict(mixed), 'a': [dict(mixed)]}),
                     lambda: refcodec.enc_table({'n': plain, 'a': [plain]})),
                    ('Queue.Declare arguments', lambda: p.frame.marshal(
                        p.commands.Queue.Declare(queue='q',
                                                 arguments=dict(mixed)), 1),
                     lambda: refcodec.enc_method_frame(
                         QD, (0, 'q', False, False, False, False, False,
                              plain), 1)[0]),
                    ('headers', lambda: p.frame.marshal(
                        corpus.construct_header({'headers': dict(mixed)}, 1),
                        1),
                     lambda: refcodec.enc_header_frame(
                         1, {'headers': plain}, 1)[0])]
                for position, enc, want in shapes:
                    ctx.case(('keysub', label, n, rot, position), True,
                             sample=lambda: {'keys': label, 'texts': ts,
                                             'position': position})
                    try:
                        got = enc()
                        ctx.calls()
                    except Exception:  # noqa
                        ctx.outcome('subclass-refused')
                        continue
                    ctx.valid()
                    w = want()
                    if got != w:
                        ctx.outcome('mismatch')
                        ctx.violation(
                            'bytes|keysub|{}|{}|{}|{}'.format(label, n, rot,
                                                              position),
                            'a table whose field names {} are {} ({}) is '
                            'accepted but encodes as {} where the plain names '
                            'give {}'.format(ts, label, position,
                                             got.hex()[:120], w.hex()[:120]),
                            {'kind': 'key-subclasses'}, w.hex()[:300],
                            got.hex()[:300])
                    else:
                        ctx.outcome('ok')
        del texts


def check_misc(ctx):
    p = lib.pamqp()
    bodies = [b'\x00', b'\xce', b'AMQP', refcodec.HEARTBEAT, b'a' * 4096,
              bytes(range(256)) * 3, b'\x01\x00\x01\x00\x00\x00\x04',
              b'x' * 131064]
    for b in bodies:
        for ch in A.CHANNEL:
            key = ('body', b, ch)
            ctx.case(key, True)
            want, fields = refcodec.enc_body_frame(b, ch)
            got = p.frame.marshal(p.body.ContentBody(b), ch)
            ctx.calls()
            report(ctx, 'bytes|body|%d|%s' % (ch, b[:16].hex()),
                   'body len %d ch %d' % (len(b), ch),
                   {'kind': 'body', 'hex': b.hex() if len(b) < 600 else None,
                    'len': len(b), 'channel': ch}, want, got, fields)
    for ch in A.CHANNEL:
        ctx.case(('hb', ch), ch != 0)
        got = p.frame.marshal(p.heartbeat.Heartbeat(), ch)
        ctx.calls()
        # a heartbeat is only ever sent on channel 0: the frame is fixed
        report(ctx, 'bytes|heartbeat|%d' % ch, 'heartbeat',
               {'kind': 'heartbeat', 'channel': ch}, refcodec.HEARTBEAT, got)
    for major in (0, 1, 9, 255):
        for minor in (0, 9, 206, 255):
            for rev in (0, 1, 8, 255):
                ctx.case(('ph', major, minor, rev), True)
                want = refcodec.enc_protocol_header(major, minor, rev)
                got = p.frame.marshal(
                    p.header.ProtocolHeader(major, minor, rev), 0)
                ctx.calls()
                report(ctx, 'bytes|protocol|%d.%d.%d' % (major, minor, rev),
                       'protocol header', {'kind': 'protocol', 'version':
                                           [major, minor, rev]}, want, got)
    # sample for the evidence
    ctx.samples.append({'kind': 'misc', 'bodies': len(bodies),
                        'channels': len(A.CHANNEL)})


# ---------------------------------------------------------------------------
# One object encoded again and again while its arguments change (by
# assignment and by in-place mutation of its tables): every encoding must be
# the reference encoding of the CURRENT arguments.

TABLE_OPS = ['add', 'nest-append', 'nest-set', 'replace', 'del', 'clear']


def fresh_table(kind='FRESH'):
    if kind == 'FLAT':      # no container values: only leaves, one mutable
        return {'b': bytearray(b'nonce-0'), 'k': 'v', 'n': 40000}
    if kind == 'BLOBS':     # byte arrays at three depths
        return {'a': [1, bytearray(b'el')], 'd': {'x': bytearray(b'in')},
                'b': bytearray(b'top'), 'k': 'v'}
    return {'a': [1], 'd': {'x': 1}, 'k': 'v'}


# in-place changes of byte-array leaves, and leaves that make the encode
# fail (with four different exception types) followed by their repair in
# place: the object is the same one throughout
BLOB_OPS = ['blob-extend', 'blob-setitem', 'blob-clear']
NESTED_BLOB_OPS = ['blob-extend', 'nest-blob-extend', 'nest-blob-setitem']
POISONS = [decimal.Decimal('NaN'), 2 ** 64, '\ud800',
           datetime.datetime(1969, 1, 1, tzinfo=datetime.timezone.utc),
           b'bytes']
POISON_OPS = []
for _i in range(len(POISONS)):
    for _where in ('top', 'list', 'dict'):
        POISON_OPS += ['poison-%s-%d' % (_where, _i),
                       'repair-%s-%d' % (_where, _i)]


def apply_table_op(t, op):
    if op == 'add':
        t['zz-added'] = 40000
    elif op == 'nest-append':
        t['a'].append('x')
    elif op == 'nest-set':
        t['d']['n'] = 2**40
    elif op == 'replace':
        t['k'] = -129
    elif op == 'del':
        del t['k']
    elif op == 'clear':
        t.clear()
    elif op == 'blob-extend':
        t['b'].extend(b'+1')
    elif op == 'blob-setitem':
        t['b'][0] = 0x7a
    elif op == 'blob-clear':
        del t['b'][:]
    elif op == 'nest-blob-extend':
        t['a'][1].extend(b'+1')
    elif op == 'nest-blob-setitem':
        t['d']['x'][0:1] = b'#'
    elif op.startswith('poison-') or op.startswith('repair-'):
        what, where, i = op.split('-')
        bad = POISONS[int(i)]
        if what == 'poison':
            if where == 'top':
                t['zz-bad'] = bad
            elif where == 'list':
                t['a'].append(bad)
            else:
                t['d']['zz-bad'] = bad
        else:
            if where == 'top':
                del t['zz-bad']
            elif where == 'list':
                t['a'].pop()
            else:
                del t['d']['zz-bad']


def reuse_steps_method(m):
    steps = []
    for idx, (name, wt, _d) in enumerate(m.args):
        dom = corpus.arg_domain(m, name, wt)
        for alt in dom:
            steps.append(('set', idx, alt))
        if wt == 'table':
            steps.append(('set', idx, 'FRESH'))
            for op in TABLE_OPS:
                steps.append(('mut', idx, op))
            steps.append(('set', idx, 'FRESH'))
            steps.append(('mut', idx, 'nest-append'))
            steps.append(('set', idx, 'FLAT'))
            for op in BLOB_OPS:
                steps.append(('mut', idx, op))
            steps.append(('set', idx, 'BLOBS'))
            for op in NESTED_BLOB_OPS + POISON_OPS:
                steps.append(('mut', idx, op))
    return steps


def run_reuse_method(ctx, m, source, upto=None):
    p = lib.pamqp()
    vec = list(corpus.nondefault_vector(m))
    obj = corpus.construct(m, copy.deepcopy(vec))
    if source == 'decoded':
        obj = p.frame.unmarshal(p.frame.marshal(obj, 1))[2]
        vec = [getattr(obj, a[0]) for a in m.args]
        vec = copy.deepcopy(vec)
    p.frame.marshal(obj, 1)
    steps = reuse_steps_method(m)
    for n, (kind, idx, arg) in enumerate(steps):
        if upto is not None and n > upto:
            break
        name = m.args[idx][0]
        if kind == 'set':
            val = fresh_table(arg) if isinstance(arg, str) and arg in (
                'FRESH', 'FLAT', 'BLOBS') and m.args[idx][1] == 'table' \
                else arg
            setattr(obj, name, copy.deepcopy(val))
            vec[idx] = copy.deepcopy(val)
        else:
            apply_table_op(getattr(obj, name), arg)
            apply_table_op(vec[idx], arg)
        if upto is not None and n < upto:
            p.frame.marshal(obj, 1)
            continue
        ctx.case(('reuse', m.name, source, n), True, sample=lambda: {
            'method': m.name, 'object': source, 'step': [kind, name,
                                                         short(arg, 60)]})
        case = {'kind': 'reuse', 'method': m.name, 'source': source,
                'upto': n}
        fp = 'reuse|{}|{}|{}'.format(m.name, source, n)
        try:
            want, fields = refcodec.enc_method_frame(m, tuple(vec), 1)
        except (refcodec.RefError, UnicodeEncodeError, OverflowError,
                struct.error, ValueError, TypeError):
            try:        # not encodable (a poisoned leaf): the library's
                p.frame.marshal(obj, 1)     # attempt is made, result unjudged
            except Exception:  # noqa
                pass
            continue
        try:
            got = p.frame.marshal(obj, 1)
            ctx.calls()
        except Exception as exc:  # noqa
            ctx.violation(fp, '{} ({}) refused after step {} {} {}: {!r}'
                          .format(m.name, source, kind, name, short(arg, 80),
                                  exc), case, 'accepted', repr(exc))
            continue
        report(ctx, fp, '{} object ({}) encoded again after {} {}={} (step '
               '{} on the same object)'.format(m.name, source, kind, name,
                                               short(arg, 80), n), case,
               want, got, fields)


def reuse_steps_header():
    steps = [('size', None, v) for v in (0, 2**64 - 1, 7)]
    for name, wt, _b in corpus.SETTABLE:
        for alt in corpus.prop_value_domain(name, wt)[:6]:
            steps.append(('set', name, alt))
        steps.append(('set', name, None))
        steps.append(('set', name, corpus.prop_value_domain(name, wt)[0]))
        if wt == 'table':
            steps.append(('set', name, 'FRESH'))
            for op in TABLE_OPS:
                steps.append(('mut', name, op))
    steps.append(('newprops', None, None))
    steps.append(('set', 'headers', 'FRESH'))
    steps.append(('mut', 'headers', 'nest-append'))
    steps.append(('set', 'headers', 'FLAT'))
    for op in BLOB_OPS:
        steps.append(('mut', 'headers', op))
    steps.append(('set', 'headers', 'BLOBS'))
    for op in NESTED_BLOB_OPS + POISON_OPS:
        steps.append(('mut', 'headers', op))
    return steps


def run_reuse_header(ctx, source, upto=None):
    p = lib.pamqp()
    props = corpus.props_for_subset((1 << corpus.NSET) - 1)
    size = 5
    obj = corpus.construct_header(copy.deepcopy(props), size)
    if source == 'decoded':
        obj = p.frame.unmarshal(p.frame.marshal(obj, 1))[2]
        props = {n: copy.deepcopy(getattr(obj.properties, n))
                 for n, _t, _b in corpus.SETTABLE
                 if getattr(obj.properties, n) is not None}
    p.frame.marshal(obj, 1)
    for n, (kind, name, arg) in enumerate(reuse_steps_header()):
        if upto is not None and n > upto:
            break
        if kind == 'size':
            obj.body_size = size = arg
        elif kind == 'newprops':
            props = {'app_id': 'new', 'priority': 3}
            obj.properties = p.commands.Basic.Properties(**props)
        elif kind == 'set':
            val = fresh_table(arg) if isinstance(arg, str) and arg in (
                'FRESH', 'FLAT', 'BLOBS') and name == 'headers' else arg
            setattr(obj.properties, name, copy.deepcopy(val))
            if val is None:
                props.pop(name, None)
            else:
                props[name] = copy.deepcopy(val)
        else:
            apply_table_op(getattr(obj.properties, name), arg)
            apply_table_op(props[name], arg)
        if upto is not None and n < upto:
            p.frame.marshal(obj, 1)
            continue
        ctx.case(('reuse-header', source, n), True, sample=lambda: {
            'object': 'ContentHeader ' + source,
            'step': [kind, name, short(arg, 60)]})
        case = {'kind': 'reuse-header', 'source': source, 'upto': n}
        fp = 'reuse|header|{}|{}'.format(source, n)
        try:
            want, fields = refcodec.enc_header_frame(size, props, 1)
        except (refcodec.RefError, UnicodeEncodeError, OverflowError,
                struct.error, ValueError, TypeError):
            try:        # not encodable (a poisoned leaf): the library's
                p.frame.marshal(obj, 1)     # attempt is made, result unjudged
            except Exception:  # noqa
                pass
            continue
        try:
            got = p.frame.marshal(obj, 1)
            ctx.calls()
        except Exception as exc:  # noqa
            ctx.violation(fp, 'ContentHeader ({}) refused after step {} {} '
                          '{}: {!r}'.format(source, kind, name,
                                            short(arg, 80), exc), case,
                          'accepted', repr(exc))
            continue
        report(ctx, fp, 'ContentHeader object ({}) encoded again after {} '
               '{}={} (step {} on the same object)'.format(
                   source, kind, name, short(arg, 80), n), case, want, got,
               fields)


def run(task, ctx):
    kind = task[0]
    if kind == 'reuse':
        if task[1] == 'header':
            run_reuse_header(ctx, task[2])
        else:
            run_reuse_method(ctx, spec_table.BY_NAME[task[1]], task[2])
    elif kind == 'dense':
        for m, vec, ch in corpus.dense_cases(task[1:], ctx.tier):
            ctx.case(('m', m.name, canon(list(vec)), ch), True,
                     sample=lambda: {'method': m.name,
                                     'vec': short(list(vec), 120),
                                     'channel': ch, 'dense': task[1]})
            check_method(ctx, m, vec, ch)
    elif kind == 'm':
        for m, vec, ch, _i in corpus.method_cases(task[1:], ctx.tier,
                                                  ctx.seed):
            ctx.case(('m', m.name, canon(list(vec)), ch),
                     not (corpus.is_default(m, vec) and ch == 0),
                     sample=lambda: {'method': m.name,
                                     'vec': short(list(vec), 160),
                                     'channel': ch})
            if ctx.evaluations % 29 == 0:
                corpus.disturb()     # explore from a non-initial state too
                corpus.DISTURBED = True
                ctx.count('disturbed')
            check_method(ctx, m, vec, ch)
    elif kind == 'h':
        for props, size, ch in corpus.header_cases(task[1:], ctx.tier,
                                                   ctx.seed):
            ctx.case(('h', canon(props), size, ch),
                     bool(props) or size != 0 or ch != 0,
                     sample=lambda: {'props': short(props, 160),
                                     'body_size': size, 'channel': ch})
            check_header(ctx, props, size, ch)
    elif kind == 'codepoints':
        p = lib.pamqp()
        for first, strings, names in values.codepoint_blocks(task[1],
                                                             task[2]):
            ctx.case(('cp', first), True, sample=lambda: {
                'code_points': '%#x..%#x' % (first,
                                             first + values.CP_BLOCK - 1)})
            for label, enc, arg, want in (
                    ('field_array of strings', p.encode.field_array, strings,
                     refcodec.enc_array(strings)),
                    ('field_table with these names', p.encode.field_table,
                     names, refcodec.enc_table(names))):
                try:
                    got = enc(arg)
                    ctx.calls()
                except Exception as exc:  # noqa
                    got = repr(exc).encode()
                ctx.valid()
                if got != want:
                    ctx.outcome('mismatch')
                    ctx.violation('bytes|codepoints|%#x|%s' % (first, label),
                                  '%s for code points %#x..%#x: bytes differ '
                                  'from the reference (%s / %s)' % (
                                      label, first,
                                      first + values.CP_BLOCK - 1,
                                      got.hex()[:80], want.hex()[:80]),
                                  {'kind': 'codepoints', 'lo': task[1],
                                   'hi': task[2]}, want.hex()[:300],
                                  got.hex()[:300])
                else:
                    ctx.outcome('ok')
    elif kind == 'key-subclasses':
        check_key_subclasses(ctx)
    elif kind == 'subclasses':
        check_subclass_values(ctx)
    elif kind == 'v':
        for v in values.values(task[1:], ctx.tier, ctx.seed):
            for position in values.POSITIONS:
                ctx.case(('v', position, canon(v)), True,
                         sample=lambda: {'position': position,
                                         'value': short(v, 160)})
                check_value(ctx, position, v)
    else:
        check_misc(ctx)


def replay(case, ctx):
    corpus.replay_prepare(case)
    kind = case['kind']
    if kind == 'method':
        check_method(ctx, spec_table.BY_NAME[case['method']],
                     tuple(fromjson(case['vec'])), case['channel'])
    elif kind == 'header':
        check_header(ctx, fromjson(case['props']), case['body_size'],
                     case['channel'])
    elif kind == 'value':
        check_value(ctx, case['position'], fromjson(case['value']))
    elif kind == 'reuse':
        run_reuse_method(ctx, spec_table.BY_NAME[case['method']],
                         case['source'], upto=case['upto'])
    elif kind == 'reuse-header':
        run_reuse_header(ctx, case['source'], upto=case['upto'])
    elif case['kind'] == 'key-subclasses':
        check_key_subclasses(ctx)
    elif case['kind'] == 'subclasses':
        check_subclass_values(ctx)
    elif case['kind'] == 'codepoints':
        run(('codepoints', case['lo'], case['hi']), ctx)
    else:
        check_misc(ctx)
