"""C15 - timestamp handling does not depend on the host time zone or DST."""
import bisect
import datetime
import json
import os
import subprocess
import sys
import zoneinfo

from mc import runner
from mc.tzchild import DST_ZONES

ID = 'C15'
LEVEL = 'model_checking'
RULE = ('Configuration enumeration: one fresh child process per TZ setting '
        '(14 in quick: UTC, +-offsets, half-hour, +14, -11, DST zones of both '
        'hemispheres, POSIX strings; every zone of the tz database in '
        'thorough) x instants {0, 1, 2^31-1, 2^31, 2^32-1, every DST '
        'transition 1970..2106 of six DST zones at -3601 -1 0 +1 +3599 s, '
        'every hour of 2006 and 2038} x input forms (naive, aware UTC, three '
        'fixed offsets, ZoneInfo with both folds, struct_time with isdst 0/1/'
        '-1), and for three forms the same value as a Basic.Properties '
        'timestamp and as a method-argument table value through frame.marshal'
        '/unmarshal. Oracle in each child: bytes == >Q of the absolute instant, '
        'decoded value UTC-aware denoting it; the SHA-256 of the complete '
        'result table must be identical in all children. A case is (TZ, '
        'instant, form); non-trivial = TZ other than UTC.')
BOUNDS = {'quick': {'tz_settings': 14, 'instants': 'about 26 k'},
          'thorough': {'tz_settings': 'all of zoneinfo.available_timezones() '
                       '+ 3 POSIX strings', 'instants': 'about 26 k'}}
ASSUMPTIONS = ['the TZ environment variable is read at interpreter start-up '
               '(each setting gets its own process)',
               'instants between the enumerated ones are not covered']
SELFTEST = False
WATCHDOG = 3000

QUICK_TZ = ['UTC', 'America/New_York', 'Europe/London', 'Australia/Lord_Howe',
            'Australia/Sydney', 'America/Sao_Paulo', 'Asia/Kolkata',
            'Asia/Kathmandu', 'Pacific/Kiritimati', 'Pacific/Pago_Pago',
            'Africa/Casablanca', 'XXX-14', 'EST5EDT', '<+0530>-5:30']
# "right" zones count leap seconds: the C library's gmtime() is off by the
# leap seconds since 1972 there.  Only where the zone files are installed.
RIGHT_TZ = [z for z in ('right/UTC', 'right/America/New_York')
            if os.path.exists(os.path.join('/usr/share/zoneinfo', z))]
QUICK_TZ += RIGHT_TZ
UTC = datetime.timezone.utc
EPOCH = datetime.datetime(1970, 1, 1, tzinfo=UTC)


def transitions(zone_name):
    """UTC instants (seconds) where the zone's UTC offset changes,
    1970..2106, found by day scan + bisection."""
    zi = zoneinfo.ZoneInfo(zone_name)

    def off(t):
        return (EPOCH + datetime.timedelta(seconds=t)).astimezone(
            zi).utcoffset()
    out = []
    end = 2**32 - 1
    day = 86400
    t, prev = 0, off(0)
    while t + day <= end:
        nxt = off(t + day)
        if nxt != prev:
            lo, hi = t, t + day
            while hi - lo > 1:
                mid = (lo + hi) // 2
                if off(mid) == prev:
                    lo = mid
                else:
                    hi = mid
            out.append(hi)
            prev = nxt
        t += day
    return out


def instants():
    pts = {0, 1, 2**31 - 1, 2**31, 2**32 - 1, 1600000000}
    for z in DST_ZONES:
        for tr in transitions(z):
            for d in (-3601, -1, 0, 1, 3599):
                if 0 <= tr + d <= 2**32 - 1:
                    pts.add(tr + d)
    for year in (2006, 2038):
        start = int((datetime.datetime(year, 1, 1, tzinfo=UTC) -
                     EPOCH).total_seconds())
        for h in range(0, 8760):
            pts.add(start + h * 3600)
    return sorted(pts)


def tasks(tier, seed):
    cache = os.path.join(runner.VERIF, '.cache')
    os.makedirs(cache, exist_ok=True)
    path = os.path.join(cache, 'instants-%d.json' % os.getpid())
    with open(path, 'w') as fh:
        json.dump(instants(), fh)
    zones = list(QUICK_TZ)
    if tier == 'thorough':
        zones += sorted(z for z in zoneinfo.available_timezones()
                        if z not in zones)
    # the zone selected AFTER the library was imported (os.environ + tzset)
    late = [('UTC', z) for z in RIGHT_TZ + ['America/New_York',
                                            'Australia/Lord_Howe']]
    late += [(z, 'UTC') for z in RIGHT_TZ[:1] + ['America/New_York']]
    late += [('America/New_York', z) for z in RIGHT_TZ[-1:]]
    return [(z, path) for z in zones] + \
        [('%s>%s' % pair, path) for pair in late]


def run(task, ctx):
    tz, path = task
    env = dict(os.environ, TZ=tz)
    env.pop('MC_TZ_LATE', None)
    if '>' in tz:
        first, later = tz.split('>')
        env.update(TZ=first, MC_TZ_LATE=later)
    out = subprocess.run([sys.executable, '-m', 'mc.tzchild', path],
                         capture_output=True, text=True, env=env,
                         timeout=1200)
    if out.returncode != 0:
        raise RuntimeError('child for TZ=%s failed: %s' % (tz, out.stderr))
    rep = json.loads(out.stdout.strip().splitlines()[-1])
    n = rep['cases']
    ctx.evaluations += n
    ctx.transitions += 2 * n
    ctx.validated += n
    # one state per (TZ, case index): the child enumerates the same cases
    # under every TZ, so (tz, i) is a faithful distinct key
    base = hash(tz)
    for i in range(0, n):
        ctx.states.add(hash((base, i)))
    if tz != 'UTC':
        ctx.nontrivial = set(ctx.states)
    ctx.outcome('digest:' + rep['digest'])
    ctx.count('children')
    ctx.samples.append({'TZ': tz, 'tzname': rep['tzname'],
                        'local_utc_offsets_seen':
                        rep['local_utc_offsets_seen'],
                        'cases': n, 'digest': rep['digest'][:16],
                        'examples': rep['samples'][:2]})
    for v in rep['violations']:
        ctx.violation('tz|{}|{}|{}|{}'.format(tz, v['stage'], v['form'],
                                              v['instant']),
                      'TZ={}: {} of {} ({}) at instant {}: got {} want {}'
                      .format(tz, v['stage'], v['form'], v['value'],
                              v['instant'], v['got'], v['want']),
                      {'tz': tz, 'instant': v['instant']}, v['want'],
                      v['got'])


def finish(merged, tier, seed):
    digests = sorted(k for k in merged.outcomes if k.startswith('digest:'))
    if len(digests) > 1 and not merged.violations:
        merged.violations.append({
            'fingerprint': 'tz|digests-differ',
            'message': 'result tables differ between TZ settings: %s' %
            digests, 'case': {'tz': 'all'}, 'expected': 'one digest',
            'observed': digests})
        merged.nviolations += 1
    for tz, path in []:
        pass
    cache = os.path.join(runner.VERIF, '.cache')
    try:
        os.unlink(os.path.join(cache, 'instants-%d.json' % os.getpid()))
    except OSError:
        pass
    return {'distinct_result_digests': len(digests)}


def replay(case, ctx):
    tz = case.get('tz', 'UTC')
    cache = os.path.join(runner.VERIF, '.cache')
    os.makedirs(cache, exist_ok=True)
    path = os.path.join(cache, 'instants-replay-%d.json' % os.getpid())
    pts = [case['instant']] if 'instant' in case else instants()
    with open(path, 'w') as fh:
        json.dump(pts, fh)
    try:
        for z in ([tz] if tz != 'all' else QUICK_TZ):
            run((z, path), ctx)
    finally:
        os.unlink(path)
