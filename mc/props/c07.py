"""C07 - incomplete frames raise UnmarshalingException, never return a frame."""
from mc import faults, frames, lib, runner
from mc.canon import short

ID = 'C07'
LEVEL = 'model_checking'
RULE = ('E4 crash points: every reference-encoded valid frame of the corpus '
        '(K_rep, bodies/heartbeats/protocol headers, method frames: <=2-'
        'deviation vectors in quick / full products in thorough, content '
        'headers of the C02 space) x every cut point 0..len-1 (frames over '
        '4096 bytes: first/last 300 offsets, every structural field boundary '
        '+-2 and every 251st offset); the representative frames again with '
        'debug logging switched on. A case is one strict prefix; distinct '
        'by content; non-trivial = cut inside the frame body (>= 7 bytes).'
        ' '
        'Also: the complete frame is decoded as the control of each '
        'experiment; every cut of the representative frames is also '
        'given as a bytearray and as a writable memoryview; import '
        'probes and -bb / -OO -bb child interpreters.')
BOUNDS = {'quick': {'frames': 'K_rep + misc + <=2-deviation method vectors + '
                    'C02-quick headers', 'cuts': 'all (structural subset above '
                    '4096 bytes)'},
          'thorough': {'frames': 'K_rep + misc + full method products + '
                       'C02-thorough headers', 'cuts': 'all (structural '
                       'subset above 4096 bytes)'}}
ASSUMPTIONS = ['frames are produced by the reference encoder (C04 shows the '
               'library encoder emits the same bytes)']


def tasks(tier, seed):
    # the representative frames once more with debug logging switched on
    # (process environment: must not change what a prefix raises)
    return frames.frame_tasks(tier) + [('debug-logging', 'rep'),
                                       ('debug-logging', 'misc')]


def env_tasks(tier, seed):
    """What is repeated in an interpreter started with other flags (-bb)."""
    return [('rep',), ('misc',), ('debug-logging', 'rep'),
            ('debug-logging', 'misc')]


BUFFER_KINDS = [('a bytearray', bytearray),
                ('a view of a bytearray', lambda b: memoryview(bytearray(b)))]


def check_prefix(ctx, prefix, label, cut, raw=None):
    p = lib.pamqp()
    given, prefix = prefix, (prefix if raw is None else raw)
    try:
        with runner.guard(10):
            consumed, channel, obj = p.frame.unmarshal(given)
    except p.exceptions.UnmarshalingException:
        ctx.outcome('unmarshaling-exception')
        return
    except runner.Hang:
        ctx.outcome('hang')
        ctx.violation('prefix|' + prefix.hex()[:400], 'decoding a {}-byte '
                      'prefix of {} did not terminate'.format(cut, label),
                      {'hex': prefix.hex(), 'label': label},
                      'UnmarshalingException', 'no termination')
        return
    except Exception as exc:  # noqa
        ctx.outcome('other:' + type(exc).__name__)
        ctx.violation('prefix|' + prefix.hex()[:400],
                      'prefix of length {} of {} raised {} instead of '
                      'UnmarshalingException ({})'.format(
                          cut, label, type(exc).__name__, prefix.hex()[:80]),
                      {'hex': prefix.hex(), 'label': label},
                      'UnmarshalingException', repr(exc))
        return
    ctx.outcome('returned-frame')
    ctx.violation('prefix|' + prefix.hex()[:400],
                  'prefix of length {} of {} was decoded as a frame: '
                  'consumed={} channel={} {} ({})'.format(
                      cut, label, consumed, channel,
                      short(lib.frame_summary(obj), 120), prefix.hex()[:80]),
                  {'hex': prefix.hex(), 'label': label},
                  'UnmarshalingException',
                  'returned consumed=%r' % (consumed,))


def check_whole(ctx, data, label, env):
    """The control of the experiment: the frame whose prefixes are refused
    is itself accepted, entirely, in the same environment."""
    p = lib.pamqp()
    ctx.case((data, env, 'whole'), True)
    ctx.valid()
    try:
        with runner.guard(10):
            consumed, _channel, _obj = p.frame.unmarshal(data)
        ctx.calls()
        bad = None if consumed == len(data) else \
            'consumed {} of {} bytes'.format(consumed, len(data))
    except runner.Hang:
        bad = 'did not terminate'
    except Exception as exc:  # noqa
        bad = 'raised {!r}'.format(exc)
    if bad:
        ctx.outcome('whole-frame-refused')
        ctx.violation('whole|' + data.hex()[:400],
                      'the complete frame {} ({} bytes) is not accepted: '
                      '{}'.format(label, len(data), bad),
                      {'hex': data.hex(), 'label': label, 'whole': True},
                      'decoded, consumed == len', bad)


def run(task, ctx):
    if task[0] == 'debug-logging':
        with lib.debug_logging():
            run_frames(task[1:], ctx, ' [debug logging on]')
    else:
        run_frames(task, ctx, '')


def run_frames(task, ctx, env):
    for label, data, fields, _trivial in frames.frames(task, ctx.tier,
                                                       ctx.seed):
        label += env
        if env and len(data) > 5000:
            continue
        cuts = faults.cut_points(data, fields, every=False)
        views = task[0] in ('rep', 'misc') and len(data) <= 600
        if len(data) > 4096:
            ctx.count('frames_cut_structurally')
        ctx.count('frames')
        check_whole(ctx, data, label, env)
        for cut in cuts:
            prefix = data[:cut]
            ctx.case((prefix, env), cut >= 7,
                     sample=lambda: {'frame': label, 'cut': cut,
                                     'of': len(data),
                                     'prefix': prefix[:24].hex()})
            check_prefix(ctx, prefix, label, cut)
            ctx.calls()
            ctx.valid()
            if views:
                # a sans-io client's receive buffer is as often a bytearray
                # (or a view of one) as it is bytes
                for kind, make in BUFFER_KINDS:
                    ctx.case((prefix, env, kind), cut >= 7)
                    check_prefix(ctx, make(prefix), label + ' [given as ' +
                                 kind + ']', cut, raw=prefix)
                    ctx.calls()
                    ctx.valid()


def replay(case, ctx):
    data = bytes.fromhex(case['hex'])
    if case.get('whole'):
        if '[debug logging on]' in case.get('label', ''):
            with lib.debug_logging():
                check_whole(ctx, data, case.get('label', ''), 'x')
        else:
            check_whole(ctx, data, case.get('label', ''), '')
        return
    given, raw = data, None
    for kind, make in BUFFER_KINDS:
        if '[given as ' + kind + ']' in case.get('label', ''):
            given, raw = make(data), data
    if '[debug logging on]' in case.get('label', ''):
        with lib.debug_logging():
            check_prefix(ctx, given, case.get('label', ''), len(data), raw)
        return
    check_prefix(ctx, given, case.get('label', ''), len(data), raw)
