"""C10 - encoders never emit bytes that decode to a different value."""
import array
import collections
import collections.abc
import datetime
import decimal
import math
import time

from mc import alphabets as A
from mc import corpus, lib, spec_table
from mc.canon import fromjson, norm, short, tojson

ID = 'C10'
LEVEL = 'model_checking'
RULE = ('E1: every public encoder (21 functions of pamqp.encode, by_type '
        'with every type name) x an adversarial alphabet per parameter type '
        '(integers +-1 around every width limit incl. negatives and > 64 '
        'bit, non-finite floats, Decimals of every exponent -300..+12 x 3 '
        'coefficients x sign, NaN/Infinity, 1..45 significant digits incl. '
        'values that round to a short coefficient, datetimes from '
        'year 1 to 9999 naive/aware, oversize strings, wrong types, falsy '
        'non-dicts for tables); encode.bit over value x byte x position; '
        'every argument of every method class and every property x the '
        'adversarial alphabet of its type (set after construction) with the '
        'other arguments default; channel, body size and version octets out '
        'of range; dense sweeps: every integer -66000..66000 (thorough '
        '-140000..140000) and +-300 around +-2^31 2^32 2^63 2^64 through '
        'each of the 8 integer encoders; 9 base instants x 62 seconds x 6 '
        'microsecond values x 6 zone offsets; every Decimal coefficient '
        '-1100..1100 x exponent -8..3 and +-40 around 2^31; floats i/8 and '
        'm*2^k for every k -1080..1024; strings, table keys and arrays of '
        'every length 0..299 in 1-4 byte characters. Oracle: the call raises, or decoding its output yields a '
        'value == the normalised input (and every other argument '
        'unchanged). A case is (entry point, value); non-trivial = all.'
        ' '
        'Also: numbers must keep their kind (2 is not 2.0); '
        'homogeneous arrays and tables through the size thresholds '
        '0..69, 100, 127..129, 255..257, 400, 511..513, 1024..1025 '
        'with a foreign element; Decimals with exponents up to 10^18, '
        'one task per exponent under a 2 GiB address-space cap '
        '(MemoryError and a call that never returns are verdicts); '
        'wrong-typed values equal to a right-typed default; 80 '
        'look-alike strings.')
BOUNDS = {'quick': {'decimal_exponents': '-300..12', 'pairs_of_bits': 'no'},
          'thorough': {'decimal_exponents': '-400..40', 'pairs_of_bits':
                       'all pairs of bit arguments x adversarial values'}}
ASSUMPTIONS = ['documented exceptions built into the oracle: single '
               'precision floats, whole-second timestamps, timestamps after '
               '2106-02-07 (skipped), keys over 128 characters (truncated)',
               'content-header weight is not asserted']
D = decimal.Decimal
UTC = datetime.timezone.utc
SELFTEST_TASK = ('bit',)

WIDTHS = [7, 8, 15, 16, 31, 32, 63, 64]
INTS = sorted({0, 1, -1, 2, 9, 255, 256, 10**30, -10**30} |
              {s * 2**k + d for k in WIDTHS for s in (1, -1)
               for d in (-1, 0, 1)})
FLOATS = [0.0, -0.0, 1.5, -1.5, float('nan'), float('inf'), float('-inf'),
          1e39, -1e39, 1e-50, 3.4028234663852886e+38, 3.4028235677973366e+38,
          2.0**128, 0.1, 16777217.0]
# buffer objects: their len() counts ITEMS, their content is bytes
BUFFERS = [memoryview(b'ab\xce\xce'), memoryview(bytearray(b'ab\xce\xce')),
           memoryview(array.array('H', b'ab\xce\xce')),
           memoryview(array.array('I', b'ab\xce\xce' * 2)),
           memoryview(b'ab\xce\xceab\xce\xce').cast('H'),
           memoryview(bytearray(b'ab\xce\xce') * 4).cast('Q'),
           array.array('B', b'ab\xce\xce'), array.array('H', b'ab\xce\xce'),
           array.array('d', [1.5, -2.0]), memoryview(b''),
           memoryview(b'abcdef')[::2],
           # more than one dimension: len() is the first dimension only
           memoryview(bytes(range(48))).cast('B', shape=[6, 8]),
           memoryview(bytes(range(48))).cast('I', shape=[3, 4]),
           memoryview(bytearray(b'ab\xce\xce' * 6)).cast('H', shape=[2, 3, 2]),
           memoryview(b'x').cast('B', shape=[1, 1])]
import fractions
import types
# wrong-typed values that compare EQUAL to a default, zero or empty value of
# the right type (a shortcut taken on == lets them through)
EQUAL_TO_DEFAULTS = [0.0, -0.0, D('0'), D('0.0'), D('-0'), fractions.Fraction(0),
                     0j, 1.0, D('1.0'), fractions.Fraction(1), 1 + 0j, 255.0,
                     D('65535'), types.MappingProxyType({}), frozenset(),
                     range(0), b'', bytearray(), False, 0]
WRONG = [None, b'bytes', 5, 1.5, [], {}, (), True, 'str', object,
         bytearray(b'x'), D('1')] + EQUAL_TO_DEFAULTS + BUFFERS
STRINGS = ['', 'a', 'a' * 255, 'a' * 256, 'é' * 127 + 'a', 'é' * 128,
           '\x00', '\ud800', 'a' * 65536, '\U0001F600' * 64]
LONGSTRINGS = STRINGS + ['a' * 70000]


def decimals(tier):
    lo, hi = (-400, 40) if tier == 'thorough' else (-300, 12)
    out = []
    for e in range(lo, hi + 1):
        for coeff in (1, 12345, 2147483647):
            out.append(D(coeff).scaleb(e))
            out.append(-D(coeff).scaleb(e))
    for digits in range(1, 41):
        out.append(D('9' * digits))
        out.append(D('0.' + '1' * digits))
        out.append(D('-' + '7' * digits + 'E-%d' % digits))
    # more significant digits than the default context precision (28) whose
    # rounding is short: an encoder that rounds silently would accept them
    for k in range(1, 45):
        out.append(D('1.' + '0' * (k - 1) + '1'))
        out.append(D('-1.' + '0' * (k - 1) + '1'))
        out.append(D('2.4' + '9' * k))
        out.append(D('0.' + '9' * k))
        out.append(D('12345.' + '0' * k + '1'))
        out.append(D('5E-%d' % k) + D(3))
        out.append(D('1' + '0' * k + '.5'))
    out += [D('NaN'), D('sNaN'), D('Infinity'), D('-Infinity'), D('-0'),
            D('0'), D('0.00'), D('0E-255'), D('0E-256'), D('0E+5'),
            D('1.10'), D('-1.5'), D('2147483648'), D('-2147483649'),
            D('21474836.48'), D('1E-255'), D('1E-256')]
    return out


ASTRONOMIC = (50, 100, 1000, 10**4, 10**5, 10**6, 10**7, 10**8, 999999999,
              10**12, 999999999999999999)


def astronomic(k):
    """Small objects that stand for astronomically many digits: an encoder
    must refuse them (or encode a zero) without writing the digits out. One
    task per exponent, so that a call that does not return names it."""
    out = []
    for lead in ('1', '-1', '0', '-0', '12345.678', '0.1'):
        for sign in ('+', '-'):
            try:
                out.append(D('%sE%s%d' % (lead, sign, k)))
            except decimal.InvalidOperation:
                pass
    return out


class WroteDigits(BaseException):
    """An encoder ran out of memory on a value that is a few bytes long."""


def check_astronomic(ctx, k):
    import resource
    p = lib.pamqp()
    e, d = p.encode, p.decode
    soft, hard = resource.getrlimit(resource.RLIMIT_AS)
    # 2 GiB, or what this process already maps plus 1.5 GiB if that is more
    # (the cap must bite on the library's allocation, never on the harness)
    cap = 2 << 30
    try:
        with open('/proc/self/statm') as fh:
            mapped = int(fh.read().split()[0]) * resource.getpagesize()
        cap = max(cap, mapped + (3 << 29))
    except (OSError, ValueError, IndexError):
        pass
    if hard != resource.RLIM_INFINITY:
        cap = min(cap, hard)
    resource.setrlimit(resource.RLIMIT_AS, (cap, hard))

    def capped(enc):
        def call(value):
            try:
                return enc(value)
            except MemoryError:
                raise WroteDigits()
        return call

    def headers(value):
        return p.commands.Basic.Properties(headers=value).marshal()

    try:
        for v in astronomic(k):
            for label, enc, dec, value in (
                    ('encode.decimal', e.decimal, d.decimal, v),
                    ('encode.encode_table_value', e.encode_table_value,
                     d.embedded_value, v),
                    ('encode.field_table', e.field_table, d.field_table,
                     {'k': v}),
                    ('encode.field_array', e.field_array, d.field_array, [v]),
                    ('Basic.Properties(headers=).marshal', headers, None,
                     {'k': v})):
                try:
                    if dec is None:
                        ctx.case((label, short(value, 300)), True)
                        try:
                            capped(enc)(value)
                            ctx.outcome('encoded')
                        except Exception:  # noqa
                            ctx.outcome('raised')
                        ctx.valid()
                        ctx.calls()
                    else:
                        judge(ctx, label, value, capped(enc), dec)
                except WroteDigits:
                    ctx.outcome('out-of-memory')
                    ctx.violation(
                        'memory|{}|{}'.format(label, short(value, 300)),
                        '{}({}) ran out of memory (address space capped at '
                        '{} MiB): the encoder writes the digits of an '
                        'unencodable value out instead of refusing it'.format(
                            label, short(value, 120), cap >> 20),
                        {'kind': 'astronomic', 'k': k}, 'raise',
                        'MemoryError')
    finally:
        resource.setrlimit(resource.RLIMIT_AS, (soft, hard))


def datetimes():
    dt = datetime.datetime
    out = [dt(1, 1, 1), dt(1, 1, 1, tzinfo=UTC), dt(1969, 12, 31, 23, 59, 59),
           dt(1969, 12, 31, 23, 59, 59, 500000, tzinfo=UTC),
           dt(1970, 1, 1), dt(1970, 1, 1, 0, 0, 0, 1),
           dt(1970, 1, 1, 5, 30, tzinfo=A.FIXED_OFFSETS[0]),
           dt(1970, 1, 1, 5, 29, 59, tzinfo=A.FIXED_OFFSETS[0]),
           A.dt(2**32 - 2), A.dt(2**32 - 1), A.dt(2**32 - 1, UTC, 999999),
           A.dt(2**32), A.dt(2**32 + 1),
           dt(9999, 12, 31, 23, 59, 59), dt(9999, 12, 31, 23, 59, 59,
                                            tzinfo=UTC),
           A.dt(1600000000, None), A.dt(1600000000, A.FIXED_OFFSETS[1]),
           # offsets with a fractional second
           dt(2021, 5, 6, 12, 0, 0, tzinfo=datetime.timezone(
               datetime.timedelta(seconds=3217, microseconds=200000))),
           dt(2021, 5, 6, 12, 0, 0, 100000, tzinfo=datetime.timezone(
               -datetime.timedelta(seconds=17761, microseconds=440000))),
           dt(1970, 1, 1, 0, 53, 37, 100000, tzinfo=datetime.timezone(
               datetime.timedelta(seconds=3217, microseconds=200000))),
           time.gmtime(0), time.gmtime(2**32 - 1), time.gmtime(2**32),
           time.struct_time((1969, 12, 31, 23, 59, 59, 2, 365, 0)),
           time.struct_time((1970, 1, 1, 0, 0, 0, 3, 1, -1)),
           time.struct_time((2020, 6, 15, 12, 0, 0, 0, 167, 1))]
    return out


TABLES = [0, '', [], False, 0.0, (), b'', bytearray(), None, {},
          {'a': 1}, {1: 2}, {'a' * 129: 1}, {'é' * 128: 1}, {'a' * 256: 1},
          {'k': object}, {'k': b'bytes'}, {'k': (1, 2)}, {'k': {1: 1}},
          {'k': [object]}, {'k': 2**63}, {'k': -2**63 - 1},
          {'k': D('1E-256')}, {'k': D('NaN')}, {'k': 1e39},
          {'k': float('nan')}, {'k': datetime.datetime(1, 1, 1)},
          {'k': 'a' * 70000}, {'': ''}, [1, 2], 'table', 5, True,
          {'k': True}, {'k': bytearray(b'\x00')}, {None: 1}, {b'k': 1}]
ARRAYS = [[], [1], [object], [2**63], [[], {}], (), (1, 2), None, {}, 'ab',
          0, [D('NaN')], [float('inf')], [1e39], [{1: 2}], [b'x'],
          [datetime.datetime(1, 1, 1)], [None, True, -129], range(3)]


def eq(decoded, inp):
    """decoded == normalised input, Python equality, NaN == NaN."""
    if isinstance(inp, float) and not isinstance(decoded, bool) and \
            isinstance(decoded, float):
        if math.isnan(inp):
            return math.isnan(decoded)
        if decoded == inp:
            return True     # double precision kept
        try:
            return decoded == norm(inp)     # documented: single precision
        except OverflowError:
            return False
    if isinstance(inp, decimal.Decimal) and isinstance(decoded,
                                                       decimal.Decimal):
        if inp.is_nan():
            return decoded.is_nan()
        return decoded == inp
    if isinstance(inp, (datetime.datetime, time.struct_time)):
        try:
            return decoded == norm(inp)
        except (OverflowError, ValueError):
            return False
    if isinstance(inp, collections.abc.Mapping):
        if not isinstance(decoded, dict):
            return False
        want = {}
        for k, v in inp.items():
            if not isinstance(k, str):
                return False
            want[k[:128]] = v
        return sorted(want) == sorted(decoded) and \
            all(eq(decoded[k], want[k]) for k in want)
    if isinstance(inp, (collections.abc.Set, collections.abc.KeysView,
                        collections.abc.ItemsView)):
        # an unordered collection accepted as an array: same elements
        items = list(inp)
        if not isinstance(decoded, list) or len(decoded) != len(items):
            return False
        rest = list(decoded)
        for it in items:
            for k, d in enumerate(rest):
                if eq(d, list(it) if isinstance(it, tuple) else it):
                    del rest[k]
                    break
            else:
                return False
        return True
    if isinstance(inp, (list, tuple, range, collections.deque,
                        collections.abc.ValuesView)):
        # a tuple / range / deque accepted as an array comes back as a list:
        # the values, not the container type, are what must survive
        items = list(inp)
        return isinstance(decoded, list) and len(decoded) == len(items) and \
            all(eq(a, b) for a, b in zip(decoded, items))
    if inp is None:
        return decoded is None
    if isinstance(inp, (memoryview, array.array)):
        # normalised input of a buffer object: the bytes it holds
        try:
            if isinstance(decoded, (bytes, bytearray)):
                return bytes(decoded) == inp.tobytes()
            # ... or, read as a sequence of numbers, its items
            items = inp.tolist()
            return isinstance(decoded, list) and \
                len(decoded) == len(items) and \
                all(eq(a, b) for a, b in zip(decoded, items))
        except Exception:  # noqa
            return False
    # a number that comes back as another kind of number has been changed
    # (2 -> 2.0 compares equal and is not the value that was given); bool is
    # Python's own subtype of int and is left to ordinary equality
    kinds = (float, decimal.Decimal)
    for kind in kinds:
        if isinstance(decoded, kind) != isinstance(inp, kind):
            return False
    try:
        return bool(decoded == inp)
    except Exception:  # noqa
        return False


def after_2106(v):
    """Timestamps the decoder reads as milliseconds by design."""
    if isinstance(v, (datetime.datetime, time.struct_time)):
        try:
            n = norm(v)
        except (OverflowError, ValueError):
            return False
        return (n - A.dt(0)).total_seconds() > 0xFFFFFFFF
    if isinstance(v, dict):
        return any(after_2106(x) for x in v.values())
    if isinstance(v, (list, tuple)):
        return any(after_2106(x) for x in v)
    return False


def judge(ctx, label, value, enc, dec, table_none=False):
    """enc(value) raises, or dec(bytes) == value."""
    case = {'kind': 'encoder', 'label': label, 'value': tojson(value)}
    fp = 'silent|{}|{}'.format(label, short(value, 300))
    ctx.case((label, short(value, 300)), True,
             sample=lambda: {'entry': label, 'value': short(value, 80)})
    try:
        data = enc(value)
        ctx.calls()
    except Exception as exc:  # noqa
        ctx.outcome('raised')
        ctx.valid()
        return
    if after_2106(value):
        ctx.outcome('skipped-after-2106')
        return
    ctx.valid()
    try:
        consumed, out = dec(data)
        ctx.calls()
    except Exception as exc:  # noqa
        ctx.outcome('undecodable')
        ctx.violation(fp, '{}({}) returned {} which does not decode: {!r}'
                      .format(label, short(value, 120),
                              short(data, 80), exc), case,
                      'raise or round trip', repr(exc))
        return
    want = {} if (table_none and value is None) else value
    if consumed != len(data) or not eq(out, want):
        ctx.outcome('silent-change')
        ctx.violation(fp, '{}({}) did not raise and its output {} decodes '
                      'to {} (consumed {} of {})'.format(
                          label, short(value, 120), short(data.hex(), 60),
                          short(out, 120), consumed, len(data)), case,
                      short(want, 200), short(out, 200))
    else:
        ctx.outcome('round-trip')


def check_encoders(ctx):
    p = lib.pamqp()
    e, d = p.encode, p.decode
    ints = list(INTS)
    pairs = [
        ('boolean', e.boolean, d.boolean, [True, False] + WRONG + [0, 1, 2]),
        ('octet', e.octet, d.octet, ints + WRONG),
        ('short_short_int', getattr(e, 'short_short_int', None),
         d.short_short_int, ints + WRONG),
        ('short_int', e.short_int, d.short_int, ints + WRONG),
        ('short_uint', e.short_uint, d.short_uint, ints + WRONG),
        ('long_int', e.long_int, d.long_int, ints + WRONG),
        ('long_uint', e.long_uint, d.long_uint, ints + WRONG),
        ('long_long_int', e.long_long_int, d.long_long_int, ints + WRONG),
        ('table_integer', e.table_integer, d.embedded_value, ints + WRONG),
        ('floating_point', e.floating_point, d.floating_point,
         FLOATS + WRONG),
        ('double', e.double, d.double, FLOATS + WRONG),
        ('decimal', e.decimal, d.decimal, decimals(ctx.tier) + WRONG),
        ('short_string', e.short_string, d.short_str, STRINGS + WRONG),
        ('long_string', e.long_string, d.long_str, LONGSTRINGS + WRONG),
        ('byte_array', e.byte_array, d.byte_array,
         [bytearray(), bytearray(b'\x00\xce'), bytearray(70000)] + WRONG),
        ('timestamp', e.timestamp, d.timestamp, datetimes() + WRONG),
        ('field_array', e.field_array, d.field_array, ARRAYS),
        ('field_table', e.field_table, d.field_table, TABLES),
        ('encode_table_value', e.encode_table_value, d.embedded_value,
         ints + FLOATS + decimals('quick')[:200] + datetimes() + STRINGS +
         WRONG + TABLES + ARRAYS),
    ]
    for label, enc, dec, vals in pairs:
        if enc is None:
            continue
        for v in vals:
            judge(ctx, 'encode.' + label, v, enc, dec,
                  table_none=(label == 'field_table'))
    names = {'bytearray': 'byte_array', 'double': 'double',
             'field_array': 'array', 'long': 'long', 'longlong': 'longlong',
             'longstr': 'longstr', 'octet': 'octet', 'short': 'short',
             'shortstr': 'shortstr', 'table': 'table',
             'timestamp': 'timestamp'}
    typed = {'bytearray': [bytearray(b'x')], 'double': FLOATS,
             'field_array': ARRAYS, 'long': ints, 'longlong': ints,
             'longstr': LONGSTRINGS, 'octet': ints, 'short': ints,
             'shortstr': STRINGS, 'table': TABLES, 'timestamp': datetimes()}
    for tname, dname in names.items():
        for v in typed[tname] + WRONG:
            judge(ctx, 'encode.by_type[%s]' % tname, v,
                  lambda x, t=tname: e.by_type(x, t),
                  lambda b, t=dname: d.by_type(b, t),
                  table_none=(tname == 'table'))
    for tname in ('bit', 'nosuchtype', '', None, 'float', 'decimal'):
        ctx.case(('by_type-unknown', tname), True)
        try:
            out = e.by_type(1, tname)
            ctx.calls()
            if tname != 'void' and out is not None:
                ctx.violation('silent|by_type|' + repr(tname),
                              'encode.by_type(1, {!r}) returned {!r}'.format(
                                  tname, out), {'kind': 'by_type',
                                                'type': tname},
                              'raise', repr(out))
        except Exception:  # noqa
            ctx.outcome('raised')


def check_surrogates(ctx):
    """Every lone surrogate U+D800..U+DFFF (no UTF-8 form: the str cannot be
    sent as text) alone / first / last, through every string entry point:
    raise, or bytes that decode back to the very same str."""
    p = lib.pamqp()
    e, d = p.encode, p.decode
    for cp in range(0xD800, 0xE000):
        c = chr(cp)
        for s in (c, c + 'ab', 'ab' + c):
            judge(ctx, 'encode.short_string', s, e.short_string, d.short_str)
            judge(ctx, 'encode.long_string', s, e.long_string, d.long_str)
        judge(ctx, 'encode.field_table', {'k': c + 'v', c: 1},
              e.field_table, d.field_table)
        judge(ctx, 'encode.field_array', ['a', 'x' + c], e.field_array,
              d.field_array)
    for s in ('\udce9t\udce9.csv', 'report-\udce9', '\ud83d', '\ude00'):
        for m, vec, idx in (
                (spec_table.BY_NAME['Basic.Publish'], (0, '', s, False,
                                                       False), 2),
                (spec_table.BY_NAME['Connection.SecureOk'], (s,), 0)):
            check_method_arg(ctx, m, idx, s)


def check_bit(ctx):
    p = lib.pamqp()
    values = [0, 1, True, False, 2, 3, 128, 255, 256, -1, -2, 'x', None, 1.0,
              0.0, 2.0, [], [1]]
    for value in values:
        for byte in (0, 0xFF, 0x55, 0xAA):
            for pos in range(8):
                ctx.case(('bit', repr(value), byte, pos), True,
                         sample=lambda: {'entry': 'encode.bit',
                                         'value': repr(value), 'byte': byte,
                                         'position': pos})
                case = {'kind': 'bit', 'value': tojson(value), 'byte': byte,
                        'pos': pos}
                try:
                    out = p.encode.bit(value, byte, pos)
                    ctx.calls()
                except Exception:  # noqa
                    ctx.outcome('raised')
                    ctx.valid()
                    continue
                ctx.valid()
                ok = isinstance(out, int) and 0 <= out <= 255
                if ok:
                    got = p.decode.bit(bytes([out]), pos)[1]
                    others = (out ^ byte) & ~(1 << pos) & 0xFF
                    # the bit now reads as the value; an encoder that only
                    # ORs may leave an already-set bit set for value 0
                    fine = got == bool(value) or \
                        (not value and got and bool(byte & (1 << pos)))
                    ok = (others == 0 and fine and
                          (value == 0 or value == 1))
                if not ok:
                    ctx.outcome('silent-change')
                    ctx.violation('silent|bit|{!r}|{}|{}'.format(value, byte,
                                                                 pos),
                                  'encode.bit({!r}, {:#04x}, {}) returned '
                                  '{!r}: other bits changed or the value is '
                                  'not a bit'.format(value, byte, pos, out),
                                  case, 'raise, or only bit %d set' % pos,
                                  repr(out))
                else:
                    ctx.outcome('round-trip')


def adversarial_for(wire_type):
    if wire_type == 'bit':
        return [True, False, 0, 1, 2, 3, 128, 255, 256, -1, 'x', '', None,
                1.0, 2.0, [], [0]]
    if wire_type in ('octet', 'short', 'long', 'longlong'):
        return INTS + WRONG
    if wire_type == 'shortstr':
        return STRINGS + A.LOOKALIKES + WRONG
    if wire_type == 'longstr':
        return LONGSTRINGS + A.LOOKALIKES + WRONG
    if wire_type == 'table':
        return TABLES
    if wire_type == 'timestamp':
        return datetimes() + WRONG
    raise ValueError(wire_type)


def check_method_arg(ctx, m, idx, value, extra=None):
    """Set one argument (after construction) to an adversarial value."""
    p = lib.pamqp()
    name, wire_type, _d = m.args[idx]
    base = list(corpus.default_vector(m))
    label = '{}.{}'.format(m.name, name)
    case = {'kind': 'method', 'method': m.name, 'idx': idx,
            'value': tojson(value), 'extra': extra and
            [extra[0], tojson(extra[1])]}
    ctx.case((label, short(value, 300), repr(extra)[:100]), True,
             sample=lambda: {'entry': 'frame.marshal(%s)' % label,
                             'value': short(value, 80)})
    obj = corpus.construct(m, base)
    setattr(obj, name, value)
    injected = {idx: value}
    if extra is not None:
        setattr(obj, m.args[extra[0]][0], extra[1])
        injected[extra[0]] = extra[1]
    try:
        data = p.frame.marshal(obj, 1)
        ctx.calls()
    except Exception:  # noqa
        ctx.outcome('raised')
        ctx.valid()
        return
    if after_2106(value):
        return
    ctx.valid()
    fp = 'silent|{}|{}|{}'.format(label, short(value, 200), short(extra, 80))
    out = lib.unmarshal_outcome(data)
    ctx.calls()
    if out[0] != 'ok' or out[1] != len(data):
        ctx.outcome('undecodable')
        ctx.violation(fp, 'marshal of {}={} returned a frame that does not '
                      'decode: {}'.format(label, short(value, 100),
                                          short(out[1:], 100)), case,
                      'raise or round trip', short(out[1:], 200))
        return
    bad = []
    for k, (an, wt, _dd) in enumerate(m.args):
        got = getattr(out[3], an, 'MISSING')
        want = injected.get(k, base[k])
        if wt == 'table' and want is None:
            want = {}
        if not eq(got, want):
            bad.append('{}: sent {} decoded {}'.format(an, short(want, 60),
                                                       short(got, 60)))
    if type(out[3]) is not type(obj):
        bad.append('decoded class {}'.format(type(out[3]).__name__))
    if bad:
        ctx.outcome('silent-change')
        ctx.violation(fp, 'marshal accepted {}={}{} but the frame decodes '
                      'differently: {}'.format(
                          label, short(value, 100),
                          '' if extra is None else ' (and %s=%s)' % (
                              m.args[extra[0]][0], short(extra[1], 40)),
                          '; '.join(bad)[:400]), case, 'raise or round trip',
                      bad[:5])
    else:
        ctx.outcome('round-trip')


def check_property(ctx, name, wire_type, value):
    p = lib.pamqp()
    case = {'kind': 'property', 'name': name, 'value': tojson(value)}
    label = 'Basic.Properties.' + name
    ctx.case((label, short(value, 300)), True,
             sample=lambda: {'entry': label, 'value': short(value, 80)})
    props = p.commands.Basic.Properties()
    setattr(props, name, value)
    try:
        data = p.frame.marshal(p.header.ContentHeader(0, 7, props), 1)
        ctx.calls()
    except Exception:  # noqa
        ctx.outcome('raised')
        ctx.valid()
        return
    if after_2106(value):
        return
    ctx.valid()
    out = lib.unmarshal_outcome(data)
    ctx.calls()
    fp = 'silent|{}|{}'.format(label, short(value, 200))
    if out[0] != 'ok' or out[1] != len(data):
        ctx.violation(fp, 'header with {}={} does not decode: {}'.format(
            label, short(value, 100), short(out[1:], 100)), case,
            'raise or round trip', short(out[1:], 200))
        return
    bad = []
    for pn, _t, _b in spec_table.PROPERTIES:
        got = getattr(out[3].properties, pn, 'MISSING')
        if pn == name:
            unset = value is None or (isinstance(value, str) and value == '')
            if unset:
                ok = got is None or (pn == 'cluster_id' and got == '')
            else:
                ok = eq(got, value)
        else:
            ok = got is None or (pn == 'cluster_id' and got == '')
        if not ok:
            bad.append('{}: decoded {}'.format(pn, short(got, 60)))
    if out[3].body_size != 7:
        bad.append('body_size {}'.format(out[3].body_size))
    if bad:
        ctx.outcome('silent-change')
        ctx.violation(fp, 'marshal accepted {}={} but the header decodes '
                      'differently: {}'.format(label, short(value, 100),
                                               '; '.join(bad)[:400]), case,
                      'raise or round trip', bad[:5])
    else:
        ctx.outcome('round-trip')


def check_envelope_args(ctx):
    p = lib.pamqp()
    for ch in (-1, 65536, 2**32, -2**16, 1.5, None, '1', True, 65535, 0):
        for label, make in (
                ('method', lambda: p.commands.Tx.Select()),
                ('header', lambda: p.header.ContentHeader(0, 1)),
                ('body', lambda: p.body.ContentBody(b'x'))):
            ctx.case(('channel', label, repr(ch)), True,
                     sample={'entry': 'frame.marshal channel', 'value':
                             repr(ch)})
            try:
                data = p.frame.marshal(make(), ch)
                ctx.calls()
            except Exception:  # noqa
                ctx.outcome('raised')
                ctx.valid()
                continue
            ctx.valid()
            out = lib.unmarshal_outcome(data)
            if out[0] != 'ok' or out[2] != ch or out[1] != len(data):
                ctx.violation('silent|channel|{}|{!r}'.format(label, ch),
                              'frame.marshal({}, channel={!r}) was accepted '
                              'but decodes as {}'.format(label, ch,
                                                         short(out[1:3])),
                              {'kind': 'channel', 'label': label,
                               'value': tojson(ch)}, 'raise or round trip',
                              short(out[1:3]))
            else:
                ctx.outcome('round-trip')
    for size in (-1, 2**64, 2**64 + 1, -2**63, 1.5, None, '1', 2**64 - 1, 0,
                 True):
        ctx.case(('body_size', repr(size)), True)
        try:
            data = p.frame.marshal(p.header.ContentHeader(0, size), 1)
            ctx.calls()
        except Exception:  # noqa
            ctx.outcome('raised')
            ctx.valid()
            continue
        ctx.valid()
        out = lib.unmarshal_outcome(data)
        if out[0] != 'ok' or out[3].body_size != size:
            ctx.violation('silent|body_size|{!r}'.format(size),
                          'ContentHeader(body_size={!r}) was accepted but '
                          'decodes as {}'.format(size, short(out[1:])),
                          {'kind': 'body_size', 'value': tojson(size)},
                          'raise or round trip', short(out[1:]))
        else:
            ctx.outcome('round-trip')
    for pos in range(3):
        for v in (-1, 256, 257, 2**31, 1.5, None, '0', 255, 0, True):
            trip = [0, 9, 1]
            trip[pos] = v
            ctx.case(('version', pos, repr(v)), True)
            try:
                data = p.frame.marshal(p.header.ProtocolHeader(*trip), 0)
                ctx.calls()
            except Exception:  # noqa
                ctx.outcome('raised')
                ctx.valid()
                continue
            ctx.valid()
            out = lib.unmarshal_outcome(data)
            got = out[0] == 'ok' and (out[3].major_version,
                                      out[3].minor_version, out[3].revision)
            if not got or list(got) != trip:
                ctx.violation('silent|version|{}|{!r}'.format(pos, v),
                              'ProtocolHeader{} was accepted but decodes as '
                              '{}'.format(tuple(trip), got),
                              {'kind': 'version', 'value': tojson(trip)},
                              'raise or round trip', repr(got))
            else:
                ctx.outcome('round-trip')
    for body in [None, 'text', 5, bytearray(b'x'), [1], b'', [b'ab', b'cd'],
                 (b'ab',), b'ab\xce\xce'] + BUFFERS:
        ctx.case(('body', short(body)), True)
        try:
            data = p.frame.marshal(p.body.ContentBody(body), 1)
            ctx.calls()
        except Exception:  # noqa
            ctx.outcome('raised')
            ctx.valid()
            continue
        ctx.valid()
        out = lib.unmarshal_outcome(data)
        if out[0] != 'ok' or not eq(out[3].value, body) or \
                out[1] != len(data):
            shown = short(tojson(body), 200)
            ctx.violation('silent|body|{}'.format(shown),
                          'ContentBody({}) was accepted and encoded as {} '
                          'which decodes as {}'.format(
                              shown, short(data.hex(), 60),
                              short((out[1], out[2], getattr(
                                  out[3], 'value', out[3]))
                                  if out[0] == 'ok' else out[1:], 200)),
                          {'kind': 'body', 'value': tojson(body)},
                          'raise or round trip', short(out[1:]))
        else:
            ctx.outcome('round-trip')


INT_ENCODERS = ['octet', 'short_short_int', 'short_int', 'short_uint',
                'long_int', 'long_uint', 'long_long_int', 'table_integer']
DENSE = ['int:' + n for n in INT_ENCODERS] + [
    'timestamps', 'decimals', 'floats', 'strings', 'keys', 'arrays']


def simple_pairs():
    """label -> (encoder, decoder, None-means-empty-table)"""
    p = lib.pamqp()
    e, d = p.encode, p.decode
    out = {}
    for name, dec in (('octet', d.octet), ('short_short_int',
                                           d.short_short_int),
                      ('short_int', d.short_int), ('short_uint', d.short_uint),
                      ('long_int', d.long_int), ('long_uint', d.long_uint),
                      ('long_long_int', d.long_long_int),
                      ('table_integer', d.embedded_value),
                      ('timestamp', d.timestamp), ('decimal', d.decimal),
                      ('floating_point', d.floating_point),
                      ('double', d.double), ('short_string', d.short_str),
                      ('long_string', d.long_str),
                      ('field_table', d.field_table),
                      ('field_array', d.field_array),
                      ('encode_table_value', d.embedded_value)):
        enc = getattr(e, name, None)
        if enc is not None:
            out['encode.' + name] = (enc, dec, name == 'field_table')
    return out


def dense_values(kind, tier):
    """(encoder label, value) for every value of a dense range."""
    wide = tier == 'thorough'
    if kind.startswith('int:'):
        label = 'encode.' + kind[4:]
        span = 140000 if wide else 66000
        for n in range(-span, span + 1):
            yield label, n
        for k in (31, 32, 63, 64):
            for sgn in (1, -1):
                for dlt in range(-300, 301):
                    yield label, sgn * 2**k + dlt
        for n in range(0, 300):
            yield label, bool(n & 1) if n < 2 else float(n)   # wrong types
    elif kind == 'timestamps':
        dt = datetime.datetime
        offsets = [None, UTC, A.FIXED_OFFSETS[0], A.FIXED_OFFSETS[1],
                   datetime.timezone(datetime.timedelta(seconds=-12345)),
                   datetime.timezone(datetime.timedelta(hours=14))]
        bases = [0, 59, 86399, 86400, 951782400, 1600000000, 2**31 - 2,
                 2**31, 2**32 - 130]
        for base in bases:
            for sec in range(0, 125 if wide else 62):
                for us in (0, 1, 499999, 500000, 500001, 999999):
                    for tz in offsets:
                        v = A.dt(base + sec, UTC, us)
                        if tz is None:
                            v = v.replace(tzinfo=None)
                        else:
                            v = v.astimezone(tz)
                        yield 'encode.timestamp', v
                yield 'encode.timestamp', time.gmtime(base + sec)
    elif kind == 'decimals':
        for coeff in range(-1100, 1101):
            for e in range(-8, 4):
                yield 'encode.decimal', D(coeff).scaleb(e)
        for coeff in range(2**31 - 40, 2**31 + 40):
            for e in (0, -1, -3, -255, -256, 1):
                yield 'encode.decimal', D(coeff).scaleb(e)
                yield 'encode.decimal', D(-coeff).scaleb(e)
        for digits in range(1, 12):          # trailing zeros, both spellings
            for z in range(0, 8):
                yield 'encode.decimal', D('1' * digits + '0' * z)
                yield 'encode.decimal', D('1' * digits + '.' + '0' * z
                                          if z else '1' * digits)
                yield 'encode.decimal', D('1' * digits + 'E+%d' % z)
    elif kind == 'floats':
        for label in ('encode.floating_point', 'encode.double',
                      'encode_table_value'):
            label = label if label.startswith('encode.') else \
                'encode.' + label
            for i in range(-2000, 2001):
                yield label, i / 8
            for k in range(-1080, 1025):
                for m in (1.0, 1.5, -1.0, 1.0000001):
                    try:
                        yield label, math.ldexp(m, k)
                    except OverflowError:
                        pass
    elif kind == 'strings':
        for n in range(0, 300):
            for ch in ('a', 'é', '€', '\U0001F600'):
                yield 'encode.short_string', ch * n
                yield 'encode.short_string', 'a' + ch * n
                yield 'encode.encode_table_value', ch * n
        for n in list(range(65400, 65700, 1)) + [2**16 * 2, 2**16 * 3 + 1]:
            yield 'encode.long_string', 'a' * n
            yield 'encode.long_string', 'é' * (n // 2) + 'a' * (n % 2)
    elif kind == 'keys':
        for n in range(0, 300):
            for ch in ('k', 'é', '€'):
                yield 'encode.field_table', {ch * n: n}
                yield 'encode.field_table', {ch * n: [n], 'z': {ch * n: n}}
    elif kind == 'arrays':
        for n in range(0, 300):
            yield 'encode.field_array', list(range(n))
            yield 'encode.field_array', [2**40] * n
            yield 'encode.field_array', ['s' * n]
            yield 'encode.field_array', [None] * n + [n]
            yield 'encode.field_table', {'k%03d' % i: i for i in range(n)}


def check_dense(ctx, kind):
    pairs = simple_pairs()
    for label, v in dense_values(kind, ctx.tier):
        if label not in pairs:
            continue
        enc, dec, tn = pairs[label]
        judge(ctx, label, v, enc, dec, table_none=tn)


def tasks(tier, seed):
    out = [('encoders',), ('bit',), ('envelope',), ('props',),
           ('surrogates',)]
    out += [('dense', k) for k in DENSE]
    out += [('astronomic', k) for k in ASTRONOMIC]
    from mc import values
    out += [('homog', k) for k in range(len(values.HOMOG))]
    out += [('method', m.name) for m in spec_table.METHODS if m.args]
    return out


def run(task, ctx):
    kind = task[0]
    if kind == 'encoders':
        check_encoders(ctx)
    elif kind == 'bit':
        check_bit(ctx)
    elif kind == 'astronomic':
        check_astronomic(ctx, task[1])
    elif kind == 'homog':
        # arrays / tables of n elements of one kind with one element of
        # another kind somewhere, n through every interior size threshold
        from mc import values
        p = lib.pamqp()
        for v in values.homogeneous(task[1], ctx.tier):
            if isinstance(v, dict):
                judge(ctx, 'encode.field_table', v, p.encode.field_table,
                      p.decode.field_table)
            else:
                judge(ctx, 'encode.field_array', v, p.encode.field_array,
                      p.decode.field_array)
    elif kind == 'surrogates':
        check_surrogates(ctx)
    elif kind == 'envelope':
        check_envelope_args(ctx)
    elif kind == 'dense':
        check_dense(ctx, task[1])
    elif kind == 'props':
        for name, wt, _b in spec_table.PROPERTIES:
            vals = adversarial_for(wt)
            for v in vals:
                check_property(ctx, name, wt, v)
    else:
        m = spec_table.BY_NAME[task[1]]
        for idx, (name, wt, _d) in enumerate(m.args):
            for v in adversarial_for(wt):
                check_method_arg(ctx, m, idx, v)
        if ctx.tier == 'thorough':
            bits = [i for i, a in enumerate(m.args) if a[1] == 'bit']
            for i in bits:
                for k in bits:
                    if i == k:
                        continue
                    for v in (2, 128, 255, -1, 3):
                        for w in (True, False):
                            check_method_arg(ctx, m, i, v, extra=(k, w))


def replay(case, ctx):
    kind = case['kind']
    if kind == 'method':
        extra = case.get('extra')
        if extra:
            extra = (extra[0], fromjson(extra[1]))
        check_method_arg(ctx, spec_table.BY_NAME[case['method']], case['idx'],
                         fromjson(case['value']), extra)
    elif kind == 'property':
        wt = {n: t for n, t, _b in spec_table.PROPERTIES}[case['name']]
        check_property(ctx, case['name'], wt, fromjson(case['value']))
    elif kind == 'bit':
        check_bit(ctx)
        ctx.violations = [v for v in ctx.violations if v['case'] == case] \
            or ctx.violations
    elif kind == 'astronomic':
        check_astronomic(ctx, case['k'])
    elif kind == 'encoder' and case['label'] in simple_pairs():
        enc, dec, tn = simple_pairs()[case['label']]
        judge(ctx, case['label'], fromjson(case['value']), enc, dec,
              table_none=tn)
    elif kind == 'encoder':
        check_encoders(ctx)
        ctx.violations = [v for v in ctx.violations
                          if v['case'].get('label') == case['label'] and
                          v['case'].get('value') == case['value']]
    else:
        check_envelope_args(ctx)
        check_encoders(ctx)
