"""C14 - method catalogue matches the AMQP 0-9-1 + RabbitMQ specification."""
import inspect
import re

from mc import corpus, lib, refcodec, spec_table
from mc.canon import canon, short

ID = 'C14'
LEVEL = 'model_checking'
RULE = ('Complete enumeration of a finite structure: every fact (index set, '
        'ids, name, argument order, wire types, sync flag, reply list, reply '
        'closure, defaults incl. docstring defaults, property order/types/'
        'flag bits, behavioural index check) of all 64 classes and '
        'Basic.Properties is compared with the transcribed spec table. A case '
        'is one (class, fact); non-trivial = every fact (no default case).'
        ' '
        'Also: the catalogue is re-read on a fresh import after '
        'applications defined subclasses (plain, with constructor '
        'arguments, with __slots__ of their own, a vendor method), '
        'unknown ids were decoded, and all 64 methods were decoded '
        'under warnings-as-errors and under debug logging.')
BOUNDS = {'quick': {'facts': 'all'}, 'thorough': {'facts': 'all'}}
ASSUMPTIONS = ['mc/spec_table.py is a faithful transcription of AMQP 0-9-1 + '
               'RabbitMQ extensions and of the library\'s documented naming '
               'and default conventions']


def tasks(tier, seed):
    return [('index-set',), ('properties',), ('applications',)] + \
        [('method', m.name) for m in spec_table.METHODS]


def fact(ctx, subject, name, want, got):
    ctx.case((subject, name), True,
             sample={'subject': subject, 'fact': name, 'spec': short(want, 80)})
    ctx.valid()
    ctx.calls()
    if want != got or type(want) is not type(got):
        ctx.outcome('mismatch')
        ctx.violation('catalogue|{}|{}'.format(subject, name),
                      '{}: {} is {} but the specification says {}'.format(
                          subject, name, short(got), short(want)),
                      {'subject': subject, 'fact': name}, short(want),
                      short(got))
    else:
        ctx.outcome('ok')


DOC_DEFAULT = re.compile(r':param (\w+):.*?(?=:param|:type|:raises|\Z)', re.S)


def doc_defaults(cls):
    """{param: literal text} parsed from '- Default: ``x``' docstring lines."""
    out = {}
    doc = cls.__doc__ or ''
    for m in DOC_DEFAULT.finditer(doc):
        block = m.group(0)
        d = re.search(r'- Default: ``(.*?)``', block, re.S)
        if d:
            out[m.group(1)] = d.group(1)
    return out


def doc_literal(value):
    """How the class documentation writes a default."""
    if value is spec_table.TABLE:
        return '{}'
    if isinstance(value, str):
        return value if value != '' else "''"
    return repr(value)


def check_method(ctx, m):
    p = lib.pamqp()
    subject = m.name
    cls = p.commands.INDEX_MAPPING.get(m.index)
    fact(ctx, subject, 'reachable through INDEX_MAPPING', True,
         cls is not None)
    if cls is None:
        return
    by_name = getattr(getattr(p.commands, m.cls, None), m.meth, None)
    fact(ctx, subject, 'commands.<Class>.<Method> is the mapped class', True,
         by_name is cls)
    fact(ctx, subject, 'is a Frame subclass', True,
         isinstance(cls, type) and issubclass(cls, p.base.Frame))
    owner = getattr(p.commands, m.cls, None)
    fact(ctx, subject, 'class id', m.class_id, getattr(owner, 'frame_id', None))
    fact(ctx, subject, 'class index', m.class_id << 16,
         getattr(owner, 'index', None))
    fact(ctx, subject, 'method id', m.method_id, cls.frame_id)
    fact(ctx, subject, 'index', m.index, cls.index)
    fact(ctx, subject, 'name', m.name, cls.name)
    names = [a[0] for a in m.args]
    fact(ctx, subject, 'argument names in wire order', names,
         list(cls.attributes()))
    for an, wt, _d in m.args:
        try:
            got = cls.amqp_type(an)
        except AttributeError:
            got = 'MISSING'
        fact(ctx, subject, 'wire type of ' + an, wt, got)
    fact(ctx, subject, 'synchronous', m.sync, cls.synchronous)
    fact(ctx, subject, 'valid_responses', m.replies,
         list(cls.valid_responses))
    fact(ctx, subject, 'synchronous iff replies', bool(cls.valid_responses),
         bool(cls.synchronous))
    for r in cls.valid_responses:
        rm = spec_table.BY_NAME.get(r)
        ok = rm is not None and rm.cls == m.cls and \
            p.commands.INDEX_MAPPING.get(rm.index) is not None and \
            p.commands.INDEX_MAPPING[rm.index].name == r
        fact(ctx, subject, 'reply {} is a method of the same class'.format(r),
             True, ok)
    # constructor defaults
    sig = inspect.signature(cls.__init__)
    params = [n for n, q in sig.parameters.items() if n != 'self' and
              q.kind not in (q.VAR_POSITIONAL, q.VAR_KEYWORD)]
    fact(ctx, subject, 'constructor parameters', names, params)
    docs = doc_defaults(cls)
    try:
        inst = cls()
    except Exception as exc:  # noqa
        inst = None
        fact(ctx, subject, 'default construction succeeds', True, repr(exc))
    for an, wt, d in m.args:
        want_attr = {} if d is spec_table.TABLE else d
        if an in sig.parameters:
            dflt = sig.parameters[an].default
            if d is spec_table.TABLE:
                # "no table" may be spelled None or {} in the signature
                fact(ctx, subject, 'signature default of ' + an +
                     ' is None or {}', True, dflt is None or dflt == {})
            else:
                fact(ctx, subject, 'signature default of ' + an,
                     canon(d), canon(dflt))
        if inst is not None:
            fact(ctx, subject, 'default attribute value of ' + an,
                 canon(want_attr), canon(getattr(inst, an, 'MISSING')))
        if d is None:
            fact(ctx, subject, 'documentation states no default for ' + an,
                 None, docs.get(an))
        else:
            fact(ctx, subject, 'documented default of ' + an,
                 doc_literal(d), docs.get(an))
    # the defaults are still the specification's after an earlier default-
    # constructed instance (and a decoded one) had its tables changed
    if inst is not None:
        tables = [an for an, wt, d in m.args if d is spec_table.TABLE]
        for an in tables:
            getattr(inst, an)['x-injected'] = 'stale'
        if tables:
            try:
                again = cls()
                for an in tables:
                    fact(ctx, subject, 'default of {} after another '
                         'instance\'s table was changed'.format(an),
                         canon({}), canon(getattr(again, an, 'MISSING')))
                    fact(ctx, subject, 'default {} objects are distinct '
                         'per instance'.format(an), True,
                         getattr(again, an, None) is not getattr(inst, an))
                vec = corpus.default_vector(m)
                wire, _f = refcodec.enc_method_frame(m, vec, 1)
                dec = p.frame.unmarshal(wire)[2]
                for an in tables:
                    getattr(dec, an)['x-injected'] = 'stale'
                third = cls()
                for an in tables:
                    fact(ctx, subject, 'default of {} after a decoded '
                         'frame\'s table was changed'.format(an),
                         canon({}), canon(getattr(third, an, 'MISSING')))
            except Exception as exc:  # noqa
                fact(ctx, subject, 'default construction repeats', True,
                     repr(exc))
    # behavioural: own encoding starts with (class<<16)|method, decodes back
    if inst is not None:
        vec = corpus.default_vector(m)
        try:
            obj = corpus.construct(m, vec)
            data = p.frame.marshal(obj, 1)
            ctx.calls(2)
            want, _f = refcodec.enc_method_frame(m, vec, 1)
            fact(ctx, subject, 'encoded class/method id',
                 want[7:11].hex(), data[7:11].hex())
            _c, _ch, back = p.frame.unmarshal(data)
            fact(ctx, subject, 'decodes to the same class', True,
                 type(back) is cls)
        except Exception as exc:  # noqa
            fact(ctx, subject, 'default vector encodes and decodes', True,
                 repr(exc))


def check_index_set(ctx):
    p = lib.pamqp()
    fact(ctx, 'INDEX_MAPPING', 'key set',
         sorted(spec_table.BY_INDEX), sorted(p.commands.INDEX_MAPPING))
    fact(ctx, 'INDEX_MAPPING', 'size', 64, len(p.commands.INDEX_MAPPING))
    classes = list(p.commands.INDEX_MAPPING.values())
    fact(ctx, 'INDEX_MAPPING', 'distinct classes', 64,
         len({id(c) for c in classes}))
    # every Frame subclass defined in commands is mapped (no stray methods)
    stray = []
    for cname in dir(p.commands):
        owner = getattr(p.commands, cname)
        if not isinstance(owner, type) or cname.startswith('_'):
            continue
        for mname, obj in vars(owner).items():
            if isinstance(obj, type) and issubclass(obj, p.base.Frame):
                if p.commands.INDEX_MAPPING.get(getattr(obj, 'index',
                                                        None)) is not obj:
                    stray.append(cname + '.' + mname)
    fact(ctx, 'commands', 'method classes not reachable through the mapping',
         [], stray)


def check_after_applications(ctx):
    """The catalogue is the library's, whatever applications define later:
    on a freshly imported library, application subclasses of every method
    class (plain ones, ones whose constructor needs an argument, a vendor
    method with an index of its own) are defined, frames with unknown
    class / method ids are decoded (and refused), mapping lookups miss - and
    then the index mapping must still hold exactly the 64 library classes
    and every class's own frame must still decode to the library class."""
    from mc import libstate, refcodec, corpus
    p = libstate.fresh_import()
    before = dict(p.commands.INDEX_MAPPING)
    subs = []
    for m in spec_table.METHODS:
        cls = corpus.lib_class_by_name(m)
        subs.append(type('App' + cls.__name__, (cls,), {}))

        def __init__(self, needed, _c=cls):
            _c.__init__(self)
            self.needed = needed
        subs.append(type('Strict' + cls.__name__, (cls,),
                         {'__init__': __init__, '__slots__': ['needed']}))
        # bookkeeping slots of the application's own, the "stay slotted"
        # idiom, the parent's names repeated
        for slots in (['received_at'], (), ['received_at', 'seen'],
                      list(getattr(cls, '__slots__', []))):
            try:
                subs.append(type('Slotted' + cls.__name__, (cls,),
                                 {'__slots__': slots}))
            except Exception:  # noqa - a layout conflict is Python's answer
                pass
    try:
        subs.append(type('Vendor', (p.base.Frame,), {
            'frame_id': 900, 'index': 0x03840001, 'name': 'Vendor.Method',
            '__slots__': [], '__annotations__': {}}))
    except Exception:  # noqa
        pass
    import struct
    for cid, mid in ((10, 99), (99, 10), (60, 41), (900, 1), (0, 0),
                     (65535, 65535)):
        payload = struct.pack('>HH', cid, mid) + b'\x00' * 8
        try:
            p.frame.unmarshal(b'\x01\x00\x01' + struct.pack(
                '>I', len(payload)) + payload + b'\xce')
        except Exception:  # noqa
            pass
        for probe in (lambda: p.commands.INDEX_MAPPING[(cid << 16) | mid],
                      lambda: p.commands.INDEX_MAPPING.get((cid << 16) | mid),
                      lambda: ((cid << 16) | mid) in p.commands.INDEX_MAPPING):
            try:
                probe()
            except Exception:  # noqa
                pass
    # ... and every method's frame is decoded in a process that raises
    # warnings as errors, and with debug logging on (a deprecated method
    # must not make the decoder rewrite its own catalogue)
    for env in (lib.warnings_as_errors, lib.debug_logging):
        with env():
            for m in spec_table.METHODS:
                for vec in (corpus.nondefault_vector(m), None):
                    try:
                        data, _f = refcodec.enc_method_frame(
                            m, vec if vec is not None else
                            corpus.default_vector(m), 1)
                        p.frame.unmarshal(data)
                    except Exception:  # noqa
                        pass
    fact(ctx, 'INDEX_MAPPING', 'entries that are not classes after the '
         'applications\' history', [],
         [hex(k) for k, v in p.commands.INDEX_MAPPING.items()
          if not isinstance(v, type)])
    fact(ctx, 'INDEX_MAPPING', 'key set after applications defined '
         'subclasses and unknown methods were looked up',
         sorted(spec_table.BY_INDEX), sorted(p.commands.INDEX_MAPPING))
    changed = [hex(k) for k, v in p.commands.INDEX_MAPPING.items()
               if before.get(k) is not v]
    fact(ctx, 'INDEX_MAPPING', 'entries replaced after applications defined '
         'subclasses and unknown methods were looked up', [], changed)
    wrong = []
    for m in spec_table.METHODS:
        data, _f = refcodec.enc_method_frame(
            m, corpus.nondefault_vector(m), 1)
        try:
            obj = p.frame.unmarshal(data)[2]
            if type(obj) is not before[m.index]:
                wrong.append('%s -> %s.%s' % (m.name, type(obj).__module__,
                                              type(obj).__qualname__))
        except Exception as exc:  # noqa
            wrong.append('%s -> %r' % (m.name, exc))
    fact(ctx, 'decoding', 'classes no longer decoded to the library class '
         'after applications defined subclasses', [], wrong)
    del subs
    libstate.fresh_import()


def check_properties(ctx):
    p = lib.pamqp()
    cls = p.commands.Basic.Properties
    subject = 'Basic.Properties'
    fact(ctx, subject, 'names in specification order',
         [n for n, _t, _b in spec_table.PROPERTIES], list(cls.attributes()))
    for n, t, b in spec_table.PROPERTIES:
        try:
            got = cls.amqp_type(n)
        except AttributeError:
            got = 'MISSING'
        fact(ctx, subject, 'wire type of ' + n, t, got)
        fact(ctx, subject, 'flag bit of ' + n, 1 << b,
             cls.flags.get(n, 'MISSING'))
    fact(ctx, subject, 'flag names', sorted(n for n, _t, _b in
                                            spec_table.PROPERTIES),
         sorted(cls.flags))
    fact(ctx, subject, 'class id', 60, cls.frame_id)
    fact(ctx, subject, 'index', 60, cls.index)
    fact(ctx, subject, 'name', 'Basic.Properties', cls.name)
    sig = inspect.signature(cls.__init__)
    fact(ctx, subject, 'constructor parameters',
         [n for n, _t, _b in spec_table.PROPERTIES],
         [n for n in sig.parameters if n != 'self'])
    first = cls()
    first.headers = {'x': 1}
    first.app_id = 'stale'
    inst = cls()
    for n, _t, _b in spec_table.PROPERTIES:
        want = spec_table.PROPERTY_DEFAULTS[n]
        if n in sig.parameters:
            fact(ctx, subject, 'signature default of ' + n, canon(want),
                 canon(sig.parameters[n].default))
        fact(ctx, subject, 'default attribute value of ' + n, canon(want),
             canon(getattr(inst, n, 'MISSING')))
    # behavioural: each single property sets exactly its flag bit
    for n, t, b in spec_table.PROPERTIES:
        if n == 'cluster_id':
            continue
        value = corpus.prop_value_domain(n, t)[0]
        data = cls(**{n: value}).marshal()
        ctx.calls()
        fact(ctx, subject, 'flag word when only {} is set'.format(n),
             '%04x' % (1 << b), data[:2].hex())


def run(task, ctx):
    if task[0] == 'index-set':
        check_index_set(ctx)
    elif task[0] == 'properties':
        check_properties(ctx)
    elif task[0] == 'applications':
        check_after_applications(ctx)
    else:
        check_method(ctx, spec_table.BY_NAME[task[1]])


def replay(case, ctx):
    subject = case['subject']
    if subject in spec_table.BY_NAME:
        check_method(ctx, spec_table.BY_NAME[subject])
    elif subject == 'Basic.Properties':
        check_properties(ctx)
    else:
        check_index_set(ctx)
        check_after_applications(ctx)
    ctx.violations = [v for v in ctx.violations
                      if v['case'] == case] or ctx.violations
