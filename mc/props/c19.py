"""C19 - frames expose their arguments consistently as a mapping."""
from mc import corpus, lib, spec_table
from mc.canon import canon, fromjson, short, tojson

ID = 'C19'
LEVEL = 'model_checking'
RULE = ('E1: all 64 method classes x argument vectors with <= 2 deviations '
        '(thorough: full products) and Basic.Properties x the C02 space, '
        'each before and after an encode/decode round trip; names come from '
        'the spec table: list(iter) == [(name, getattr)] in wire order, '
        'dict(), len, membership of every spec name, 20 foreign names and '
        'every name occurring among the object\'s own values (table keys, '
        'strings; incl. tables keyed by the argument / property names), '
        'item access, attributes(), amqp_type; order of first use: 8 preludes '
        'on a freshly imported library (bare base classes first, properties '
        'first, application subclasses first, class-level calls first, '
        'decoding first, reversed / sorted / interleaved class order) '
        'followed by the view of every class. A case is (class, vector, '
        'before|after); non-trivial = not the default vector.'
        ' '
        'Also: five kinds of application subclass (plain, annotated '
        'attribute, annotations read once, own constructor, two '
        'levels) of all 64 methods and of Basic.Properties through '
        'the same view and marshal; the list returned by attributes() '
        'reversed and extended by the caller.')
BOUNDS = {'quick': {'vectors': '<=2 deviations', 'properties': 'C02 quick'},
          'thorough': {'vectors': 'full products', 'properties':
                       'C02 thorough'}}
ASSUMPTIONS = ['argument names and order taken from mc/spec_table.py']
FOREIGN = ['', 'x', 'name', 'index', 'frame_id', 'validate', 'marshal',
           '__slots__', '_ticket', 'Ticket', 'ticket ', 'queue_', 'flags',
           'synchronous', 'valid_responses', 'properties', 'arguments_',
           'no-wait', 'type', 'global']
SELFTEST_TASK = ('m2', 'Basic.Ack')


def tasks(tier, seed):
    if tier == 'thorough':
        out = [('m',) + t for t in corpus.method_tasks(tier)]
    else:
        out = [('m2', m.name) for m in spec_table.METHODS]
    out += [('h',) + tuple(t) for t in corpus.header_tasks(tier)]
    out += [('names',), ('subclasses',)]
    out += [('order', v) for v in ORDERS]
    return out


SUBCLASS_KINDS = ['plain', 'annotated attribute', 'annotations read once',
                  'own constructor', 'subclass of a subclass']


def make_subclass(cls, kind):
    """An application's subclass of a library class: it adds bookkeeping of
    its own, never a wire argument, so the mapping view is the parent's."""
    name = 'App' + cls.__name__
    if kind == 'plain':
        return type(name, (cls,), {})
    if kind == 'annotated attribute':
        return type(name, (cls,), {'__annotations__': {'trace_id': str},
                                   'trace_id': None})
    if kind == 'annotations read once':
        sub = type(name, (cls,), {})
        getattr(sub, '__annotations__', None)
        return sub
    if kind == 'own constructor':
        def __init__(self, *args, **kwargs):
            cls.__init__(self, *args, **kwargs)
            self.note = 'mine'
        return type(name, (cls,), {'__init__': __init__,
                                   '__annotations__': {'note': str}})
    return type(name + '2', (make_subclass(cls, 'annotated attribute'),),
                {'__annotations__': {'extra': int}, 'extra': 0})


def check_subclasses(ctx):
    p = lib.pamqp()
    targets = [(m.name, corpus.lib_class_by_name(m),
                [a[0] for a in m.args], [a[1] for a in m.args],
                dict(zip([a[0] for a in m.args], corpus.nondefault_vector(m))))
               for m in spec_table.METHODS]
    targets.append(('Basic.Properties', p.commands.Basic.Properties,
                    [a[0] for a in spec_table.PROPERTIES],
                    [a[1] for a in spec_table.PROPERTIES],
                    corpus.props_for_subset(0x1555)))
    for label, cls, names, types, kwargs in targets:
        try:
            parent_bytes = cls(**kwargs).marshal()
        except Exception:  # noqa
            parent_bytes = None
        for kind in SUBCLASS_KINDS:
            ctx.case(('subclass', label, kind), True,
                     sample={'class': label, 'subclass': kind})
            ctx.valid()
            try:
                sub = make_subclass(cls, kind)
                obj = sub(**kwargs)
                ctx.calls()
            except Exception:  # noqa - refusing to be subclassed is allowed
                ctx.outcome('refused')
                continue
            bad = mapping_view(obj, names, types, label)
            for n in names:
                try:
                    if n in kwargs and obj[n] is not kwargs[n] and \
                            canon(obj[n]) != canon(kwargs[n]):
                        bad.append('{}[{!r}] is {} not the value given'.format(
                            label, n, short(obj[n], 40)))
                except Exception as exc:  # noqa
                    bad.append('[{!r}] raised {!r}'.format(n, exc))
            try:
                if parent_bytes is not None and \
                        obj.marshal() != parent_bytes:
                    bad.append('encodes differently from the parent class')
            except Exception as exc:  # noqa
                bad.append('marshal raised {!r}'.format(exc))
            if bad:
                ctx.outcome('mismatch')
                ctx.violation('mapping|subclass|{}|{}'.format(label, kind),
                              'application subclass ({}) of {}: {}'.format(
                                  kind, label, '; '.join(bad)[:500]),
                              {'kind': 'subclasses'},
                              'the parent\'s mapping view', bad[:6])
            else:
                ctx.outcome('ok')


ORDERS = ['base-first', 'props-first', 'reverse', 'fewest-arguments-first',
          'class-level-first', 'decode-first', 'subclass-first',
          'interleaved', 'abandoned-iteration-first',
          'nested-iteration-first', 'partial-protocol-first']


def _use(obj):
    """Exercise the whole mapping interface of one object, ignoring what it
    answers (first-use side effects are the point)."""
    for f in (lambda: list(iter(obj)), lambda: dict(obj), lambda: len(obj),
              lambda: 'x' in obj, lambda: type(obj).attributes(),
              lambda: obj.marshal(), lambda: obj.validate(),
              lambda: [type(obj).amqp_type(n)
                       for n in type(obj).attributes()]):
        try:
            f()
        except Exception:  # noqa
            pass


def check_order(ctx, variant):
    """Order of first use: a freshly imported library, a prelude that
    touches some classes first (the bare base classes, the properties, an
    application subclass, class-level calls, decoding), then the mapping
    view of every class, default and non-default, before and after a round
    trip.  Whatever was used first, every class answers from its own
    argument list."""
    from mc import libstate, refcodec
    p = libstate.fresh_import()
    methods = list(spec_table.METHODS)
    if variant == 'base-first':
        for name in ('_AMQData', 'Frame', 'BasicProperties'):
            cls = getattr(p.base, name, None)
            if cls is not None:
                try:
                    _use(cls())
                except Exception:  # noqa
                    pass
    elif variant == 'props-first':
        _use(p.commands.Basic.Properties())
        _use(p.commands.Basic.Properties(app_id='a', headers={'k': 1}))
    elif variant == 'reverse':
        methods.reverse()
    elif variant == 'fewest-arguments-first':
        methods.sort(key=lambda m: (len(m.args), m.name))
    elif variant == 'class-level-first':
        for m in methods:
            cls = corpus.lib_class_by_name(m)
            for f in (cls.attributes, lambda: [cls.amqp_type(n) for n in
                                               cls.attributes()]):
                try:
                    f()
                except Exception:  # noqa
                    pass
    elif variant == 'decode-first':
        for m in methods:
            data, _f = refcodec.enc_method_frame(
                m, corpus.nondefault_vector(m), 1)
            try:
                p.frame.unmarshal(data)
            except Exception:  # noqa
                pass
        try:
            p.frame.unmarshal(refcodec.enc_header_frame(
                1, {'app_id': 'a'}, 1)[0])
        except Exception:  # noqa
            pass
    elif variant == 'subclass-first':
        try:
            class AppDeclare(p.commands.Queue.Declare):
                pass

            class AppFrame(p.base.Frame):
                __slots__ = ['only']
                __annotations__ = {'only': int}
                _only = 'octet'
                name = 'App.Frame'

            class AppProps(p.commands.Basic.Properties):
                pass
            for cls in (AppDeclare, AppFrame, AppProps):
                try:
                    _use(cls())
                except Exception:  # noqa
                    pass
        except Exception:  # noqa
            pass
    elif variant in ('abandoned-iteration-first', 'nested-iteration-first',
                     'partial-protocol-first'):
        # what the first use of a class in a process may well be: a loop
        # left at the first hit, next(iter(...)), any(...), a loop inside a
        # loop over the same object, a single membership test
        objs = [corpus.construct(m, corpus.nondefault_vector(m))
                for m in methods]
        objs.append(p.commands.Basic.Properties(content_type='a',
                                                headers={'k': 1}))
        for k, obj in enumerate(objs):
            try:
                if variant == 'abandoned-iteration-first':
                    for _pair in obj:
                        break
                    next(iter(obj), None)
                    any(True for _pair in obj)
                    it = iter(obj)
                    for _n in range(k % 4):
                        next(it, None)
                    del it
                elif variant == 'nested-iteration-first':
                    for _a in obj:
                        for _b in obj:
                            pass
                        break
                    a, b = iter(obj), iter(obj)
                    next(a, None), next(b, None), next(b, None), next(a, None)
                else:
                    'nothing' in obj
                    len(obj)
                    for name in list(type(obj).attributes())[:1]:
                        obj[name]
            except Exception:  # noqa
                pass
    elif variant == 'interleaved':
        # one class of each AMQP class first, the properties in the middle
        methods.sort(key=lambda m: (m.method_id, m.class_id))
        methods.insert(len(methods) // 2, None)
    pnames_done = False
    for m in methods + [None]:
        if m is None:
            if pnames_done:
                continue
            pnames_done = True
            for props in ({}, {'app_id': 'a', 'headers': {'k': [1]},
                               'priority': 0, 'delivery_mode': 2}):
                ctx.case(('order', variant, 'props', canon(props)), True,
                         sample=lambda: {'first_use_order': variant,
                                         'properties': short(props, 80)})
                check_props(ctx, props, order=variant)
            continue
        for vec in (corpus.default_vector(m), corpus.nondefault_vector(m)):
            ctx.case(('order', variant, m.name, canon(list(vec))), True,
                     sample=lambda: {'first_use_order': variant,
                                     'method': m.name})
            check_method(ctx, m, tuple(vec), order=variant)
    libstate.fresh_import()


def mapping_view(obj, names, types, label):
    """List of problems with the mapping protocol of obj."""
    bad = []
    cls = type(obj)
    try:
        pairs = list(iter(obj))
    except Exception as exc:  # noqa
        return ['iteration raised {!r}'.format(exc)]
    got_names = [p[0] for p in pairs]
    if got_names != names:
        bad.append('iteration yields names {} not {}'.format(got_names,
                                                             names))
        return bad
    for (n, v) in pairs:
        attr = getattr(obj, n, 'MISSING')
        if v is not attr and canon(v) != canon(attr):
            bad.append('iter value of {} is {} but attribute is {}'.format(
                n, short(v), short(attr)))
    try:
        d = dict(obj)
        if list(d) != names or any(
                d[n] is not getattr(obj, n) and
                canon(d[n]) != canon(getattr(obj, n)) for n in names):
            bad.append('dict(frame) != attribute values')
    except Exception as exc:  # noqa
        bad.append('dict() raised {!r}'.format(exc))
    if len(obj) != len(names):
        bad.append('len {} != {}'.format(len(obj), len(names)))
    for n in names:
        if n not in obj:
            bad.append('{!r} not in frame'.format(n))
        try:
            item = obj[n]
            if item is not getattr(obj, n) and \
                    canon(item) != canon(getattr(obj, n)):
                bad.append('frame[{!r}] != attribute'.format(n))
        except Exception as exc:  # noqa
            bad.append('frame[{!r}] raised {!r}'.format(n, exc))
    # foreign names: a fixed list plus names taken from the object's own
    # values (keys of its tables, its string values) - a view that consults
    # the values instead of the name list would admit them
    derived = []
    for n in names:
        v = getattr(obj, n, None)
        if isinstance(v, dict):
            derived += [k for k in v if isinstance(k, str)]
            for inner in v.values():
                if isinstance(inner, dict):
                    derived += [k for k in inner if isinstance(k, str)]
        elif isinstance(v, str) and len(v) < 64:
            derived.append(v)
    for n in FOREIGN + derived:
        try:
            if n not in names and n in obj:
                bad.append('foreign name {!r} reported as member'.format(n))
                break
        except Exception as exc:  # noqa
            bad.append('membership of {!r} raised {!r}'.format(n, exc))
            break
    if list(cls.attributes()) != names:
        bad.append('attributes() {} != {}'.format(list(cls.attributes()),
                                                  names))
    # the list handed out belongs to the caller: what the caller does to it
    # changes nothing (restored afterwards, in case it was the class's own)
    handed = cls.attributes()
    if isinstance(handed, list) and not bad:
        saved = list(handed)
        try:
            handed.reverse()
            handed.append('not-an-argument')
            if [k for k, _v in obj] != names or \
                    list(cls.attributes()) != names or len(obj) != len(names):
                bad.append('after the caller reversed and extended the list '
                           'returned by attributes(), iteration gives {} and '
                           'attributes() {}'.format(
                               [k for k, _v in obj][:6],
                               list(cls.attributes())[:6]))
        except Exception as exc:  # noqa
            bad.append('after the caller changed the list returned by '
                       'attributes(): {!r}'.format(exc))
        finally:
            handed[:] = saved
    for n, t in zip(names, types):
        try:
            if cls.amqp_type(n) != t:
                bad.append('amqp_type({}) {} != {}'.format(
                    n, cls.amqp_type(n), t))
        except Exception as exc:  # noqa
            bad.append('amqp_type({}) raised {!r}'.format(n, exc))
    return bad


def check_method(ctx, m, vec, order=None):
    p = lib.pamqp()
    names = [a[0] for a in m.args]
    types = [a[1] for a in m.args]
    case = {'kind': 'method', 'method': m.name, 'vec': tojson(list(vec))}
    fp = 'mapping|{}|{}'.format(m.name, short(list(vec), 300))
    if order:
        case = {'kind': 'order', 'variant': order}
        fp = 'order|' + order + '|' + fp
    try:
        obj = corpus.construct(m, vec)
        ctx.calls()
    except Exception:  # noqa
        ctx.outcome('refused')
        return
    stages = [('before', obj)]
    try:
        _c, _ch, back = p.frame.unmarshal(p.frame.marshal(obj, 1))
        ctx.calls(2)
        stages.append(('after round trip', back))
    except Exception:  # noqa
        pass
    for stage, o in stages:
        ctx.valid()
        bad = mapping_view(o, names, types, m.name)
        # current attribute values: change one attribute, view must follow
        if names and not bad:
            for name in (names[0], names[-1]):
                old = getattr(o, name)
                marker = ['current value marker']
                try:
                    setattr(o, name, marker)
                    if dict(o)[name] is not marker or o[name] is not marker \
                            or dict(iter(o))[name] is not marker:
                        bad.append('view does not follow assignment to ' +
                                   name)
                    setattr(o, name, old)
                except Exception as exc:  # noqa
                    bad.append('setattr raised {!r}'.format(exc))
        if bad:
            ctx.outcome('mismatch')
            ctx.violation(fp + stage, '{}{} {} ({}): {}'.format(
                'first-use order "%s": ' % order if order else '',
                m.name, short(list(vec), 160), stage, '; '.join(bad)[:500]),
                case, 'consistent mapping view', bad[:6])
        else:
            ctx.outcome('ok')


def check_props(ctx, props, order=None):
    p = lib.pamqp()
    names = [a[0] for a in spec_table.PROPERTIES]
    types = [a[1] for a in spec_table.PROPERTIES]
    case = {'kind': 'props', 'props': tojson(props)}
    if order:
        case = {'kind': 'order', 'variant': order}
    try:
        obj = p.commands.Basic.Properties(**props)
        ctx.calls()
    except Exception:  # noqa
        ctx.outcome('refused')
        return
    stages = [('before', obj)]
    try:
        data = p.frame.marshal(p.header.ContentHeader(0, 1, obj), 1)
        stages.append(('after round trip',
                       p.frame.unmarshal(data)[2].properties))
        ctx.calls(2)
    except Exception:  # noqa
        pass
    for stage, o in stages:
        ctx.valid()
        bad = mapping_view(o, names, types, 'Basic.Properties')
        if bad:
            ctx.outcome('mismatch')
            ctx.violation('mapping|props|{}|{}|{}'.format(
                order, short(props, 300), stage),
                          '{}Basic.Properties {} ({}): {}'.format(
                              'first-use order "%s": ' % order if order
                              else '', short(props, 160), stage,
                              '; '.join(bad)[:500]), case,
                          'consistent mapping view', bad[:6])
        else:
            ctx.outcome('ok')


def name_keyed_cases():
    """Tables whose keys are spelled like argument / property names."""
    pnames = [a[0] for a in spec_table.PROPERTIES]
    for k in range(len(pnames)):
        keys = pnames[k:] + pnames[:k]
        yield 'props', {'message_id': 'm-1', 'app_id': 'app',
                        'headers': {n: 'header-%d' % i
                                    for i, n in enumerate(keys[:5])}}
        yield 'props', {'headers': {pnames[k]: {pnames[k]: 1}}}
    for m in spec_table.METHODS:
        tables = [i for i, a in enumerate(m.args) if a[1] == 'table']
        for i in tables:
            vec = list(corpus.default_vector(m))
            vec[i] = {a[0]: 'shadow' for a in m.args}
            yield 'method', (m, tuple(vec))


def run(task, ctx):
    kind = task[0]
    if kind == 'order':
        check_order(ctx, task[1])
    elif kind == 'subclasses':
        check_subclasses(ctx)
    elif kind == 'names':
        for what, arg in name_keyed_cases():
            if what == 'props':
                ctx.case(('props', canon(arg)), True, sample=lambda: {
                    'properties': short(arg, 120)})
                check_props(ctx, arg)
            else:
                ctx.case((arg[0].name, canon(list(arg[1]))), True,
                         sample=lambda: {'method': arg[0].name,
                                         'vec': short(list(arg[1]), 120)})
                check_method(ctx, arg[0], arg[1])
    elif kind in ('m', 'm2'):
        if kind == 'm':
            it = ((m, vec) for m, vec, ch, _i in
                  corpus.method_cases(task[1:], 'quick', ctx.seed))
        else:
            m = spec_table.BY_NAME[task[1]]
            it = ((m, vec) for vec in corpus.dev_vectors(m, 2))
        for m, vec in it:
            ctx.case((m.name, canon(list(vec))),
                     not corpus.is_default(m, vec),
                     sample=lambda: {'method': m.name,
                                     'vec': short(list(vec), 120)})
            check_method(ctx, m, vec)
    else:
        for props, _size, _ch in corpus.header_cases(task[1:], ctx.tier,
                                                     ctx.seed):
            ctx.case(('props', canon(props)), bool(props),
                     sample=lambda: {'properties': short(props, 120)})
            check_props(ctx, props)


def replay(case, ctx):
    if case['kind'] == 'subclasses':
        check_subclasses(ctx)
    elif case['kind'] == 'order':
        check_order(ctx, case['variant'])
    elif case['kind'] == 'method':
        check_method(ctx, spec_table.BY_NAME[case['method']],
                     tuple(fromjson(case['vec'])))
    else:
        check_props(ctx, fromjson(case['props']))
