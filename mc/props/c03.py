"""C03 - field tables and arrays round-trip with value and type preserved."""
from mc import alphabets as A
from mc import lib, values
from mc.canon import canon, fromjson, norm, short, tojson

ID = 'C03'
LEVEL = 'model_checking'
RULE = ('E1: every scalar of the boundary alphabet S (every ladder boundary '
        '+-1, floats, decimals, strings, byte arrays, timestamps) at three '
        'positions (top-level value, array element, table value); every '
        'ordered tree shape with <= N nodes x every list/dict labelling x 11 '
        'leaf kinds; every scalar in every leaf of every tree <= 4 nodes; '
        'all 2^k list/dict chains for k <= K; depth 16/31/32 canonical '
        'chains; every nesting depth 1..130 (thorough 200) in four list/dict '
        'patterns with a scalar / empty container innermost (up to 32 the '
        'encoder must accept, beyond it what it accepts must round-trip); '
        'every Unicode code point alone / first / last in long strings and in '
        'field names; key alphabet; homogeneous arrays and tables of every element '
        'kind (15) for every count 0..69 and 100 127 128 255 256 257 400, '
        'all-same, cycling, and with one foreign-typed element first / '
        'middle / last; every array of <= 3 (thorough 4) elements over 31 '
        'values whose encodings contain type-tag letters. A case is '
        '(position, value); non-trivial = everything but the integer 1 at '
        'top level.')
BOUNDS = {'quick': {'tree_nodes': 5, 'chain_depth': 10, 'max_depth': 32},
          'thorough': {'tree_nodes': 8, 'chain_depth': 14, 'max_depth': 32}}
ASSUMPTIONS = ['interior values (other integers, strings, floats) are '
               'represented by boundary values and 32 seeded integers',
               'floats above the single-precision range are outside the '
               'domain (the encoder refuses them; see C10)']


def tasks(tier, seed):
    return values.value_tasks(tier) + values.codepoint_tasks()


def check_codepoints(ctx, lo, hi):
    """Every code point of [lo, hi) alone / first / last in long strings
    (an array of them, a table of them) and in field names: round trip."""
    p = lib.pamqp()
    for first, strings, names in values.codepoint_blocks(lo, hi):
        ctx.case(('cp', first), True, sample=lambda: {
            'code_points': '%#x..%#x' % (first, first + values.CP_BLOCK - 1),
            'forms': ['c', 'c+ab', 'ab+c', 'field names c+k / k+c']})
        for label, enc, dec, value in (
                ('array of strings', p.encode.field_array,
                 p.decode.field_array, strings),
                ('table with these field names', p.encode.field_table,
                 p.decode.field_table, names),
                ('table of strings', p.encode.field_table,
                 p.decode.field_table,
                 {'s%03d' % i: v for i, v in enumerate(strings)})):
            case = {'codepoints': [first, first + values.CP_BLOCK],
                    'what': label}
            fp = 'codepoints|%#x|%s' % (first, label)
            try:
                data = enc(value)
                consumed, out = dec(data)
                ctx.calls(2)
            except Exception as exc:  # noqa
                ctx.outcome('raised')
                ctx.violation(fp, '{} for code points {:#x}..: {!r}'.format(
                    label, first, exc), case, 'round trip', repr(exc))
                continue
            ctx.valid()
            if consumed != len(data) or canon(out) != canon(value):
                # name the first differing element
                diff = ''
                if isinstance(value, list) and isinstance(out, list):
                    for a, b in zip(value, out):
                        if a != b:
                            diff = ' (sent %r, got %r)' % (a, b)
                            break
                elif isinstance(value, dict) and isinstance(out, dict):
                    for k in value:
                        if k not in out or out[k] != value[k]:
                            diff = ' (field %r: sent %r, got %r)' % (
                                k, value[k], out.get(k, 'MISSING'))
                            break
                ctx.outcome('mismatch')
                ctx.violation(fp, '{} for code points {:#x}..{:#x} does not '
                              'round-trip{}'.format(
                                  label, first, first + values.CP_BLOCK - 1,
                                  diff), case, short(value, 200),
                              short(out, 200))
            else:
                ctx.outcome('ok')


def codec(position):
    p = lib.pamqp()
    if position == 'top':
        return (p.encode.encode_table_value, p.decode.embedded_value,
                lambda v: v, lambda d: d)
    if position == 'array':
        return (p.encode.field_array, p.decode.field_array,
                lambda v: [v], lambda d: d)
    return (p.encode.field_table, p.decode.field_table,
            lambda v: {'k': v}, lambda d: d)


def check_one(ctx, position, v):
    enc, dec, wrap, _ = codec(position)
    value = wrap(v)
    case = {'position': position, 'value': tojson(v)}
    fp = 'value|{}|{}'.format(position, short(v, 400))
    try:
        data = enc(value)
        ctx.calls()
    except Exception as exc:  # noqa
        if A.nesting(value) > A.MAX_DEPTH:
            ctx.outcome('refused-beyond-depth-32')
            return
        ctx.outcome('encode-raised')
        ctx.violation(fp, 'encoder refused the encodable value {} at '
                      'position {}: {!r}'.format(short(v, 300), position,
                                                 exc), case, 'accepted',
                      repr(exc))
        return
    try:
        consumed, out = dec(data)
        ctx.calls()
    except Exception as exc:  # noqa
        ctx.outcome('decode-raised')
        ctx.violation(fp, 'decoding the encoding of {} ({}) raised '
                      '{!r}'.format(short(v, 300), position, exc), case,
                      'decoded', repr(exc))
        return
    ctx.valid()
    bad = []
    if consumed != len(data):
        bad.append('consumed {} != encoded length {}'.format(consumed,
                                                             len(data)))
    want = norm(value)
    if canon(want) != canon(out):
        bad.append('got {} want {}'.format(short(out, 200), short(want, 200)))
    if bad:
        ctx.outcome('mismatch')
        ctx.violation(fp, 'value {} at {}: {}'.format(
            short(v, 200), position, '; '.join(bad)[:600]), case,
            short(want, 300), short(out, 300))
    else:
        ctx.outcome('ok')


def run(task, ctx):
    if task[0] == 'codepoints':
        check_codepoints(ctx, task[1], task[2])
        return
    for v in values.values(task, ctx.tier, ctx.seed):
        for position in values.POSITIONS:
            if position == 'table' and isinstance(v, dict) and \
                    task[0] == 'keys':
                pass
            key = (position, canon(v))
            ctx.case(key, not (position == 'top' and v == 1 and
                               type(v) is int),
                     sample=lambda: {'position': position,
                                     'value': short(v, 160)})
            check_one(ctx, position, v)


def replay(case, ctx):
    if 'codepoints' in case:
        check_codepoints(ctx, case['codepoints'][0], case['codepoints'][1])
        return
    check_one(ctx, case['position'], fromjson(case['value']))
