"""C01 - every method frame survives encode-then-decode unchanged."""
from mc import corpus, lib, spec_table
from mc.canon import canon, fromjson, norm, short, tojson

ID = 'C01'
LEVEL = 'model_checking'
RULE = ('E1 product enumerator: for each of the 64 spec-table methods the '
        'full cartesian product of the per-argument alphabets (all 2^k bit '
        'combinations), channel cycled (quick) or all 7 channels (thorough), '
        'plus all <=1-deviation vectors on all channels and one seeded '
        'interior vector per class; plus dense sweeps of interior values: '
        'every octet and short value, every channel 0..65535, every long / '
        'longlong value below 70000 (thorough 300000) and within 20-40 of '
        'each power of two, every short-string length 0..255 (ASCII, 2-, 3-, '
        '4-byte characters), every long-string length 0..1100 and around '
        'powers of two, every table / array entry count 0..400 (thorough '
        '1200), every key length 0..128. A case is (method, argument vector, '
        'channel); distinct by hash of its canonical form; non-trivial = '
        'leaves the all-default vector or channel 0.')
BOUNDS = {
    'quick': {'vectors': 'full product per class', 'channels': 'cycled over '
              '7 + all 7 for <=1-deviation vectors'},
    'thorough': {'vectors': 'full product per class', 'channels': 'all 7'},
}
ASSUMPTIONS = [
    'argument values outside the alphabets are represented only by the '
    'boundary values and one seeded interior vector per class',
    'reference normalisation (mc.canon.norm) is the documented one',
]


def tasks(tier, seed):
    return corpus.method_tasks(tier) + \
        [('dense',) + t for t in corpus.dense_tasks(tier)]


def expected_arg(wire_type, value):
    if wire_type == 'table':
        return norm(value if value is not None else {})
    return norm(value)


def check_one(ctx, m, vec, channel):
    p = lib.pamqp()
    case = corpus.case_mark({'method': m.name, 'vec': tojson(list(vec)),
                             'channel': channel})
    fp = 'roundtrip|{}|{}|{}'.format(m.name, channel, short(list(vec), 400))
    try:
        obj = corpus.construct(m, vec)
        data = p.frame.marshal(obj, channel)
        ctx.calls(2)
    except Exception as exc:  # noqa
        if corpus.beyond_domain(vec):
            ctx.outcome('refused-beyond-depth-32')
            return
        ctx.outcome('encode-raised')
        ctx.violation(fp, '{} refused a spec-valid argument vector {}: '
                      '{!r}'.format(m.name, short(list(vec), 300), exc),
                      case, 'accepted', repr(exc))
        return
    try:
        consumed, ch, out = p.frame.unmarshal(data)
        ctx.calls(1)
    except Exception as exc:  # noqa
        ctx.outcome('decode-raised')
        ctx.violation(fp, '{}: decoding the encoder\'s own output raised '
                      '{!r} (vector {})'.format(m.name, exc,
                                                short(list(vec), 300)),
                      case, 'decoded frame', repr(exc))
        return
    bad = []
    if consumed != len(data):
        bad.append('consumed {} != encoded length {}'.format(consumed,
                                                             len(data)))
    if ch != channel:
        bad.append('channel {} != {}'.format(ch, channel))
    if type(out) is not type(obj) or \
            type(out) is not corpus.lib_class_by_name(m):
        bad.append('class {} != {}'.format(type(out).__name__, m.name))
    else:
        for (name, wire_type, _d), v in zip(m.args, vec):
            want = expected_arg(wire_type, v)
            got = getattr(out, name, 'MISSING')
            if canon(want) != canon(got):
                bad.append('{}: got {} want {}'.format(name, short(got),
                                                       short(want)))
    ctx.valid()
    if bad:
        ctx.outcome('mismatch')
        ctx.violation(fp, '{} ch={} vector {}: {}'.format(
            m.name, channel, short(list(vec), 300), '; '.join(bad)[:500]),
            case, 'round trip equal', bad[:6])
    else:
        ctx.outcome('ok')


def run(task, ctx):
    if task[0] == 'dense':
        for m, vec, channel in corpus.dense_cases(task[1:], ctx.tier):
            ctx.case((m.name, canon(list(vec)), channel), True,
                     sample=lambda: {'method': m.name,
                                     'vec': short(list(vec), 120),
                                     'channel': channel, 'dense': task[1]})
            check_one(ctx, m, vec, channel)
        return
    for m, vec, channel, _i in corpus.method_cases(task, ctx.tier, ctx.seed):
        key = (m.name, canon(list(vec)), channel)
        trivial = corpus.is_default(m, vec) and channel == 0
        ctx.case(key, not trivial, sample=lambda: {
            'method': m.name, 'vec': short(list(vec), 200),
            'channel': channel})
        if ctx.evaluations % 29 == 0:
            corpus.disturb()     # explore from a non-initial state too
            corpus.DISTURBED = True
            ctx.count('disturbed')
        check_one(ctx, m, vec, channel)


def replay(case, ctx):
    corpus.replay_prepare(case)
    m = spec_table.BY_NAME[case['method']]
    check_one(ctx, m, tuple(fromjson(case['vec'])), case['channel'])
