"""C06 - decoding consumes exactly one frame and ignores what follows it."""
import itertools
import struct

from mc import corpus, frames, fuzzspace, lib, refcodec, runner
from mc.canon import short

ID = 'C06'
LEVEL = 'model_checking'
RULE = ('E2 explicit-state exploration of the sans-io receive loop: a peer '
        'sends frames F1..Fn (all sequences over the 15-frame adversarial '
        'set K_seq, n <= 3 quick / 4 thorough), the network delivers the '
        'concatenation in arbitrary chunks; because unmarshal is a function '
        'of its argument the client state is (c, r) = (bytes consumed, bytes '
        'received) and every reachable (c, r) with c a frame boundary and r '
        'up to two frames ahead is explored with the transitions receive-a-'
        'byte / try-decode; invariant: once r reaches the next boundary the '
        'decode result is exactly frame k (consumed, channel, content per the '
        'reference decoder) for every r. Plus every corpus frame x 9 fixed '
        'trailing strings and the trailers derived from the frame itself '
        '(the frames that may follow it: content header with class 60 / the '
        'frame\'s class / foreign classes, body, methods, heartbeat, on the '
        'same and on another channel, well-formed, malformed and cut; 44 '
        'for the representative frames, 7 for all others), the same bytes as bytearray / memoryview and as slices of '
        'larger buffers for every pair of K_seq frames (acceptance is not '
        'required; a returned frame must be the one the view starts with), '
        'and the envelope clause on every input of the E4 spaces '
        'that decodes successfully. A state is (sequence, c, r) / (frame, '
        'trailer) / input; non-trivial = a successful decode with trailing '
        'bytes or an envelope check performed.'
        ' '
        'Also: every single-frame buffer of the E4 spaces up to 4 KiB '
        '(length lies inside a correct envelope included) decoded '
        'alone, followed by filler and followed by itself must give '
        'the same outcome.')
BOUNDS = {'quick': {'sequence_length': 3, 'lookahead_frames': 2,
                    'trailers': '9 fixed + 7..44 derived'},
          'thorough': {'sequence_length': 4, 'lookahead_frames': 2,
                       'trailers': '9 fixed + 7..44 derived'}}
ASSUMPTIONS = ['unmarshal is a pure function of its argument (established '
               'by C16), which is what collapses all chunkings to (c, r) '
               'pairs', 'frames come from the reference encoder']
SELFTEST_TASK = ('seq', 10)

TRAILERS = [b'', b'\xce', b'AMQP', b'AMQP\x00\x00\x09\x01',
            refcodec.HEARTBEAT, b'\x01\x00\x01\x00\x00\x00\x04',
            b'\x00' * 9, b'\x03\x00\x01\xff\xff\xff\xff', b'\xce' * 3]

_KSEQ = None
_REF = {}
_REL = {}


def related_trailers(data, full):
    """What a peer plausibly sends NEXT, derived from the first frame: the
    frames that follow a method in a content exchange (header, body) and
    other frames on the same and on another channel, with the class ids a
    decoder might be tempted to cross-check (that of the first frame, 60,
    others), well-formed and malformed, whole and cut; and a copy of the
    first frame itself.  None of it may influence the first result."""
    if data[:4] == b'AMQP':
        ch = 0
    else:
        ch = struct.unpack('>H', data[1:3])[0]
    cls = data[7:9] if data[0:1] in (b'\x01', b'\x02') and len(data) > 9 \
        else b'\x00\x3c'
    key = (ch, cls, full)
    if key in _REL:
        return _REL[key] + [data, data[:-1] + b'\x00']
    M = corpus.spec_table.BY_NAME
    out = []
    chans = [ch, (ch + 1) & 0xFFFF]
    for c in chans if full else chans[:1]:
        hdr = refcodec.enc_header_frame(5, {'content_type': 'a'}, c)[0]
        out.append(hdr)                                     # class 60
        for foreign in ([b'\x00\x32', b'\x00\x00', b'\xff\xff', cls]
                        if full else [b'\x00\x32']):
            out.append(hdr[:7] + foreign + hdr[9:])          # other class id
        out.append(refcodec.enc_body_frame(b'body\xce', c)[0])
        out.append(refcodec.enc_method_frame(
            M['Basic.Publish'], (0, 'e', 'k', False, False), c)[0])
        if full:
            out.append(refcodec.enc_method_frame(M['Basic.Ack'], (1, False),
                                                 c)[0])
            out.append(refcodec.enc_heartbeat_frame(c)[0])
            # malformed followers
            out.append(hdr[:-1] + b'\x00')                   # bad end octet
            out.append(hdr[:3] + b'\x00\x00\x00\x02' + hdr[7:9] + b'\xce')
            out.append(b'\x01' + hdr[1:3] + b'\x00\x00\x00\x04\xff\xff\xff'
                       b'\xff\xce')                         # unknown method
            out.append(b'\x07' + hdr[1:])                    # unknown type
            for cut in (7, 8, 9, 11, 12, len(hdr) - 1):
                out.append(hdr[:cut])                        # incomplete
    _REL[key] = out
    return out + [data, data[:-1] + b'\x00']


def kseq():
    global _KSEQ
    if _KSEQ is None:
        _KSEQ = corpus.k_seq()
        for label, data in _KSEQ:
            _REF[data] = refcodec.dec_frame(data)
            assert _REF[data]['consumed'] == len(data)
    return _KSEQ


def tasks(tier, seed):
    out = [('seq', i) for i in range(len(kseq()))]
    out += [('trail',) + tuple(t) for t in frames.frame_tasks(tier)]
    out += [('views', i) for i in range(len(kseq()))]
    out += [('consumer-loop',)]
    out += [('env',) + tuple(t) for t in fuzzspace.tasks(tier, seed)]
    return out


def decode_at(ctx, buf, label, expect_ref, case):
    """Decode buf, which starts with the complete frame described by
    expect_ref.  Returns a summary or None (violation recorded)."""
    out = lib.unmarshal_outcome(buf)
    ctx.calls()
    ctx.valid()
    fp = 'one-frame|' + (buf.hex() if len(buf) < 200 else label + '|' +
                         buf[:100].hex())
    if out[0] != 'ok':
        ctx.outcome('rejected')
        ctx.violation(fp, '{}: a buffer starting with a complete valid frame '
                      'was rejected: {!r} ({})'.format(label, out[1],
                                                       buf.hex()[:120]),
                      case, 'frame decoded', repr(out[1]))
        return None
    bad = lib.compare_frame(expect_ref, out[1], out[2], out[3])
    if bad:
        ctx.outcome('mismatch')
        ctx.violation(fp, '{}: {} ({})'.format(label, '; '.join(bad)[:400],
                                               buf.hex()[:120]), case,
                      'consumed=%d channel=%d' % (expect_ref['consumed'],
                                                  expect_ref['channel']),
                      bad[:5])
        return None
    ctx.outcome('ok')
    return (out[1], out[2], lib.frame_summary(out[3]))


def explore_sequence(ctx, seq):
    """All (c, r) states of one frame sequence."""
    frames_ = [kseq()[i] for i in seq]
    buf = b''.join(d for _l, d in frames_)
    bounds = [0]
    for _l, d in frames_:
        bounds.append(bounds[-1] + len(d))
    total = len(buf)
    names = '+'.join(l for l, _d in frames_)
    for k, (label, data) in enumerate(frames_):
        c = bounds[k]
        nxt = bounds[k + 1]
        limit = bounds[min(len(bounds) - 1, k + 3)]   # two frames ahead
        ref = _REF[data]
        base = None
        for r in range(nxt, limit + 1):
            view = buf[c:r]
            ctx.case((seq, c, r), r > nxt, sample=lambda: {
                'sequence': names, 'consumed_so_far': c, 'received': r,
                'of': total})
            case = {'kind': 'seq', 'seq': list(seq), 'c': c, 'r': r}
            got = decode_at(ctx, view, '%s at (c=%d, r=%d)' % (names, c, r),
                            ref, case)
            if got is None:
                return
            if base is None:
                base = got
            elif got != base:
                ctx.violation('depends-on-trailing|%s|%d|%d' % (names, c, r),
                              '{}: result at r={} differs from the result '
                              'at r={}'.format(names, r, nxt), case,
                              short(base), short(got))
                return
    # the client loop at r = L: drop consumed bytes until empty
    p = lib.pamqp()
    rest, n = buf, 0
    while rest:
        try:
            consumed, _ch, _obj = p.frame.unmarshal(rest)
        except Exception as exc:  # noqa
            ctx.violation('loop|' + names, '{}: client loop stopped after {} '
                          'frames: {!r}'.format(names, n, exc),
                          {'kind': 'seq', 'seq': list(seq), 'c': -1, 'r': -1},
                          '%d frames' % len(seq), repr(exc))
            return
        ctx.calls()
        if consumed <= 0 or consumed > len(rest):
            ctx.violation('loop|' + names, '{}: consumed {} of {}'.format(
                names, consumed, len(rest)),
                {'kind': 'seq', 'seq': list(seq), 'c': -1, 'r': -1},
                '0 < consumed <= len', consumed)
            return
        rest = rest[consumed:]
        n += 1
    if n != len(seq):
        ctx.violation('loop|' + names, '{}: the loop produced {} frames from '
                      '{}'.format(names, n, len(seq)),
                      {'kind': 'seq', 'seq': list(seq), 'c': -1, 'r': -1},
                      len(seq), n)


def check_trailers(ctx, label, data, full=True):
    try:
        ref = refcodec.dec_frame(data)
    except refcodec.RefError:
        return
    if any(lib.has_unrepresentable(v) for v in (ref.get('args') or [])):
        return
    for t in TRAILERS + related_trailers(data, full):
        ctx.case((data, t), bool(t), sample=lambda: {
            'frame': label, 'trailer': t.hex()})
        decode_at(ctx, data + t, label + ' + trailer ' + t.hex(), ref,
                  {'kind': 'trail', 'hex': data.hex(), 'trailer': t.hex(),
                   'label': label})


def _view_result_ok(ref, consumed, channel, obj):
    """Lenient comparison for buffer-typed input: counts, channel, kind and
    class must be those of the reference; byte contents may come back in any
    bytes-like type."""
    bad = []
    if consumed != ref['consumed']:
        bad.append('consumed {} != {}'.format(consumed, ref['consumed']))
    if channel != ref['channel']:
        bad.append('channel {} != {}'.format(channel, ref['channel']))
    kind = lib.kind_of(obj)
    if kind != ref['kind']:
        bad.append('kind {} != {}'.format(kind, ref['kind']))
    elif kind == 'body':
        try:
            if bytes(obj.value) != ref['value']:
                bad.append('body {} != {}'.format(
                    short(bytes(obj.value), 60), short(ref['value'], 60)))
        except Exception as exc:  # noqa
            bad.append('body value unreadable: {!r}'.format(exc))
    elif kind == 'method':
        if getattr(obj, 'name', None) != ref['method'].name:
            bad.append('class {} != {}'.format(getattr(obj, 'name', None),
                                               ref['method'].name))
        else:
            for (name, wt, _d), want in zip(ref['method'].args, ref['args']):
                got = getattr(obj, name, 'MISSING')
                if wt in ('octet', 'short', 'long', 'longlong', 'bit',
                          'shortstr') and got != want:
                    bad.append('{}: {} != {}'.format(name, short(got, 40),
                                                     short(want, 40)))
    elif kind == 'header':
        if obj.body_size != ref['body_size']:
            bad.append('body_size {} != {}'.format(obj.body_size,
                                                   ref['body_size']))
    return bad


def check_views(ctx, label, buf, frames_):
    """The same bytes handed over in other buffer types and as SLICES of
    larger buffers (a client that keeps one receive buffer and advances a
    memoryview over it).  The decoder need not accept such input at all -
    any exception is fine - but when it returns a frame, that frame is the
    one the bytes of the view start with: never the content of the
    underlying buffer outside the view, never a frame the view holds only
    part of."""
    p = lib.pamqp()
    bounds = [0]
    for d in frames_:
        bounds.append(bounds[-1] + len(d))
    pad = b'\x03\x00\x09\x00\x00\x00\x03pad\xce'
    padded = pad + buf + pad
    big = bytearray(padded)
    views = []
    for k in range(len(frames_)):
        c, nxt = bounds[k], bounds[k + 1]
        for r in sorted({nxt, len(buf), nxt - 1, c + 7, c + 3,
                         min(len(buf), nxt + 5)}):
            if r < c:
                continue
            off = len(pad)
            views += [
                ('memoryview(bytes)[%d:%d]' % (c, r), memoryview(buf)[c:r]),
                ('memoryview(padded bytes)[%d:%d]' % (off + c, off + r),
                 memoryview(padded)[off + c:off + r]),
                ('memoryview(bytearray)[%d:%d]' % (off + c, off + r),
                 memoryview(big)[off + c:off + r]),
                ('bytearray', bytearray(buf[c:r])),
                ('memoryview(bytes) whole', memoryview(buf[c:r])),
            ]
    for vlabel, view in views:
        content = bytes(view)
        ctx.case((label, vlabel, content[:24]), True, sample=lambda: {
            'frames': label, 'view': vlabel, 'view_bytes': len(content)})
        case = {'kind': 'views', 'label': label, 'hex': buf.hex(),
                'lens': [len(d) for d in frames_]}
        try:
            consumed, channel, obj = p.frame.unmarshal(view)
            ctx.calls()
        except BaseException as exc:  # noqa
            if isinstance(exc, (runner.Hang, KeyboardInterrupt, SystemExit)):
                raise
            ctx.outcome('view-refused')
            continue
        ctx.valid()
        try:
            ref = refcodec.dec_frame(content)
        except refcodec.RefError:
            ref = None
        fp = 'view|{}|{}'.format(label, vlabel)
        if ref is None:
            ctx.outcome('view-mismatch')
            ctx.violation(fp, '{}: unmarshal({}) returned ({}, {}, {}) but '
                          'the {} bytes of the view do not hold a complete '
                          'frame ({})'.format(
                              label, vlabel, consumed, channel,
                              lib.kind_of(obj), len(content),
                              content.hex()[:80]), case,
                          'an exception', 'a frame')
            continue
        bad = _view_result_ok(ref, consumed, channel, obj)
        if bad:
            ctx.outcome('view-mismatch')
            ctx.violation(fp, '{}: unmarshal({}) = ({}, {}, {}): {} (the '
                          'view holds {})'.format(
                              label, vlabel, consumed, channel,
                              lib.kind_of(obj), '; '.join(bad)[:300],
                              content.hex()[:80]), case,
                          'the frame the view starts with', bad[:4])
        else:
            ctx.outcome('ok')


def check_envelope(ctx, label, data):
    """Whenever decoding succeeds the result is the one written in the first
    7 bytes."""
    out = lib.unmarshal_outcome(data)
    ctx.calls()
    if out[0] != 'ok':
        ctx.outcome('not-decoded')
        return False
    ctx.valid()
    _ok, consumed, channel, obj = out
    kind = lib.kind_of(obj)
    bad = []
    if data[:4] == b'AMQP' or kind == 'protocol':
        if not (data[:4] == b'AMQP' and kind == 'protocol' and consumed == 8
                and len(data) >= 8):
            bad.append('protocol header rule broken: kind={} consumed={} '
                       'starts-with-AMQP={}'.format(kind, consumed,
                                                    data[:4] == b'AMQP'))
    else:
        if len(data) < 8:
            bad.append('decoded {} bytes'.format(len(data)))
        else:
            ftype, ch, size = struct.unpack('>BHI', data[:7])
            want = {1: 'method', 2: 'header', 3: 'body', 8: 'heartbeat'}.get(
                ftype)
            if kind != want:
                bad.append('kind {} but type octet {} means {}'.format(
                    kind, ftype, want))
            if channel != ch:
                bad.append('channel {} != {} in header'.format(channel, ch))
            if consumed != size + 8:
                bad.append('consumed {} != size + 8 = {}'.format(consumed,
                                                                 size + 8))
            if not 0 < consumed <= len(data):
                bad.append('consumed {} outside the {} bytes supplied'.format(
                    consumed, len(data)))
            elif data[consumed - 1] != 0xCE:
                bad.append('last consumed byte is {:02x}, not the frame-end '
                           'octet'.format(data[consumed - 1]))
    if bad:
        ctx.outcome('envelope-broken')
        ctx.violation('envelope|' + data.hex()[:400], '{}: {} ({})'.format(
            label, '; '.join(bad), data.hex()[:120]),
            {'kind': 'env', 'hex': data.hex(), 'label': label},
            'result matches the 7-byte header', bad)
    else:
        ctx.outcome('ok')
    return True


def check_consumer_loop(ctx):
    """The sans-io receive loop over a bytearray: decode at the front, keep
    the frame, delete the consumed bytes, go on. The decoder need not accept
    a bytearray (a refusal ends the stream), but when it does, the buffer
    is the caller's again when the call returns - it can be resized, and
    what is done to it afterwards does not reach the frames handed out."""
    p = lib.pamqp()
    M = corpus.spec_table.BY_NAME
    small = [refcodec.enc_body_frame(b'abc', 1)[0], refcodec.HEARTBEAT,
             refcodec.enc_method_frame(M['Basic.Ack'], (7, True), 2)[0],
             refcodec.enc_method_frame(M['Basic.Publish'],
                                       (0, 'e', 'k', False, False), 3)[0],
             refcodec.enc_header_frame(5, {'app_id': 'a'}, 3)[0]]
    sizes = [1, 4096, 131072, (1 << 20) - 1, 1 << 20, (1 << 20) + 1, 3 << 20]
    streams = [small, small[:3] * 3]
    for n in sizes:
        body = refcodec.enc_body_frame(bytes([n % 251]) * n, 5)[0]
        streams.append([body, small[0], body, small[2]])
        streams.append([small[2], body])
    for no, frames_ in enumerate(streams):
        buf = bytearray(b''.join(frames_))
        ctx.case(('consumer-loop', no), True, sample={
            'stream': [len(f) for f in frames_]})
        ctx.valid()
        kept, bad = [], None
        for k, want in enumerate(frames_):
            try:
                consumed, channel, obj = p.frame.unmarshal(buf)
                ctx.calls()
            except Exception:  # noqa - a bytearray need not be accepted
                break
            kept.append((want, consumed, channel, obj))
            try:
                del buf[:consumed]
            except BufferError as exc:
                bad = ('after frame {} ({} bytes) was decoded from the '
                       'receive buffer the caller cannot resize its own '
                       'buffer: {!r}'.format(k, len(want), exc))
                break
            buf[:16] = b'\xa5' * min(16, len(buf))   # refill in place
            buf[:16] = b''.join(frames_[k + 1:])[:min(16, len(buf))]
        if bad is None:
            buf[:] = b'\x5a' * len(buf)
            for k, (want, consumed, channel, obj) in enumerate(kept):
                ref = refcodec.dec_frame(want)
                problems = _view_result_ok(ref, consumed, channel, obj)
                if problems:
                    bad = ('frame {} of the stream, looked at after the '
                           'receive buffer was consumed and overwritten: '
                           '{}'.format(k, '; '.join(problems)[:300]))
                    break
        if bad:
            ctx.outcome('consumer-loop-broken')
            ctx.violation('consumer-loop|%d' % no,
                          'receive loop over a bytearray holding frames of '
                          '{} bytes: {}'.format([len(f) for f in frames_],
                                                bad),
                          {'kind': 'consumer-loop'}, 'independent frames',
                          bad)
        else:
            ctx.outcome('ok')


FOLLOWERS = [b'\xce' + b'a' * 300]


def check_followers(ctx, label, data):
    """A buffer that holds exactly the one frame its header announces -
    well-formed or not inside - gives the same outcome (the same frame, or
    the same kind of refusal) whatever follows it in the receive buffer: the
    decoder has no business beyond the bytes it reports as consumed."""
    if len(data) < 8 or len(data) > 4096 or data[:4] == b'AMQP':
        return
    size = struct.unpack('>I', data[3:7])[0]
    if size + 8 != len(data):
        return
    alone = lib.unmarshal_outcome(data)
    ctx.calls()

    def view(out):
        if out[0] != 'ok':
            return ('refused', type(out[1]).__name__)
        return ('frame', out[1], out[2], repr(lib.frame_summary(out[3])))
    want = view(alone)
    for t in FOLLOWERS + [data]:
        got = view(lib.unmarshal_outcome(data + t))
        ctx.calls()
        if got != want:
            ctx.outcome('depends-on-what-follows')
            ctx.violation('follow|' + data.hex()[:400],
                          '{}: alone in the buffer it gives {}, followed by '
                          '{} it gives {} ({})'.format(
                              label, short(want, 160), t[:12].hex(),
                              short(got, 160), data.hex()[:100]),
                          {'kind': 'follow', 'hex': data.hex(),
                           'label': label}, short(want, 300), short(got, 300))
            return


def run(task, ctx):
    kind = task[0]
    if kind == 'seq':
        n = len(kseq())
        maxlen = 4 if ctx.tier == 'thorough' else 3
        first = task[1]
        for length in range(1, maxlen + 1):
            for rest in itertools.product(range(n), repeat=length - 1):
                explore_sequence(ctx, (first,) + rest)
    elif kind == 'consumer-loop':
        check_consumer_loop(ctx)
    elif kind == 'views':
        ks = kseq()
        first = ks[task[1]]
        check_views(ctx, first[0], first[1], [first[1]])
        for second in ks:
            check_views(ctx, first[0] + '+' + second[0],
                        first[1] + second[1], [first[1], second[1]])
    elif kind == 'trail':
        for label, data, _f, _t in frames.frames(task[1:], ctx.tier,
                                                 ctx.seed):
            if len(data) > 5000:
                continue
            check_trailers(ctx, label, data, full=task[1] in ('rep', 'misc'))
    else:
        ctx.rearm(4)
        for label, data in fuzzspace.inputs(task[1:], ctx.tier, ctx.seed):
            try:
                decoded = check_envelope(ctx, label, data)
            except runner.Hang:
                ctx.cap('a non-terminating input was skipped (see C08)')
                ctx.count('hangs')
                ctx.rearm(4)
                if ctx.counters['hangs'] >= 3:
                    break
                continue
            ctx.case(data, decoded)
            try:
                check_followers(ctx, label, data)
            except runner.Hang:
                ctx.rearm(4)


def replay(case, ctx):
    if case.get('kind') == 'consumer-loop':
        check_consumer_loop(ctx)
        return
    if case.get('kind') == 'follow':
        check_followers(ctx, case.get('label', ''),
                        bytes.fromhex(case['hex']))
        return
    kind = case['kind']
    if kind == 'seq':
        kseq()
        explore_sequence(ctx, tuple(case['seq']))
    elif kind == 'trail':
        check_trailers(ctx, case.get('label', ''), bytes.fromhex(case['hex']))
    elif kind == 'views':
        buf = bytes.fromhex(case['hex'])
        parts, pos = [], 0
        for n in case['lens']:
            parts.append(buf[pos:pos + n])
            pos += n
        check_views(ctx, case.get('label', ''), buf, parts)
    else:
        check_envelope(ctx, case.get('label', ''), bytes.fromhex(case['hex']))
