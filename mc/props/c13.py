"""C13 - argument validation accepts exactly the specified values, on send
only."""
from mc import corpus, lib, refcodec, spec_table
from mc.canon import fromjson, short, tojson

ID = 'C13'
LEVEL = 'model_checking'
RULE = ('E1: the 21 validating classes + Basic.Properties (from the spec '
        'table) x every constrained argument site (41): name lengths 0 1 126 '
        '127 128 129 255 256 257; every Unicode code point 0..0x10FFFF (incl. '
        'surrogates) as only / middle / first / last character of a name - '
        'at one exchange-name and one queue-name site in quick, at all 20 '
        'name sites in thorough; code points 0..0x2FF and 64 look-alikes at '
        'every name site; deprecated fields x fixed/other values; '
        'delivery_mode -1..256; each three ways: constructor, setattr + '
        'frame.marshal (the same object encoded three times), and as received bytes through frame.unmarshal; '
        'object reuse: one long-lived object per history, its attribute '
        'assigned every sequence of length 2 and 3 over 3-6 freshly built '
        'valid / broken values (strings of 4 common lengths), encoded after '
        'every step / first and last / last only. '
        'Oracle: an independent predicate written from the statement; '
        'ValueError iff broken; never on decode. A case is (site, value, '
        'way); non-trivial = value differs from the default.'
        ' '
        'Also: the same on objects obtained from the decoder, copy, '
        'deepcopy and pickle (where an object comes from must not '
        'matter to what its encode validates).')
BOUNDS = {'quick': {'full_code_point_sweep': 'Exchange.Declare.exchange, '
                    'Queue.Declare.queue', 'other_sites': '0..0x2FF + 64 '
                    'look-alikes'},
          'thorough': {'full_code_point_sweep': 'all 20 name sites'}}
ASSUMPTIONS = ['None (the statement does not say whether an absent value '
               'breaks a fixed-value constraint), values that differ from a '
               'fixed value only by identity (insist=0) and wrong-typed '
               'values (a str for ticket, an int for a name) are left out: '
               'the statement does not fix the exception type for them']
SELFTEST_TASK = ('props',)

ALLOWED = set(spec_table.NAME_CHARS)
LOOKALIKES = [0x212A, 0x017F, 0x0131, 0x0130, 0xFF21, 0xFF41, 0xFF10, 0x0660,
              0x0661, 0x06F0, 0x0966, 0x0A, 0x0D, 0x09, 0x0B, 0x0C, 0x1C,
              0x1D, 0x1E, 0x1F, 0x85, 0xA0, 0x1680, 0x2000, 0x2028, 0x2029,
              0x202F, 0x205F, 0x3000, 0xFEFF, 0x2D, 0x2010, 0x2011, 0x2012,
              0x2013, 0x2014, 0x2212, 0xFE63, 0xFF0D, 0x5F, 0xFF3F, 0x2E,
              0xFF0E, 0x3A, 0xFF1A, 0x40, 0xFF20, 0x23, 0xFF03, 0x2C, 0xFF0C,
              0x2F, 0xFF0F, 0x2044, 0x2215, 0x20, 0x00, 0x7F, 0x80, 0xD800,
              0xDFFF, 0xE000, 0xFFFF, 0x10FFFF]
LENGTHS = [0, 1, 126, 127, 128, 129, 255, 256, 257]
FULL_SWEEP_QUICK = {('Exchange.Declare', 'exchange'),
                    ('Queue.Declare', 'queue')}


def broken(kind, value):
    """The statement's predicate: True when the constraint is broken."""
    if value is None:
        return False
    if isinstance(kind, tuple):
        if kind[0] == 'fixed':
            return value != kind[1]
        if kind[0] == 'oneof':
            return value not in kind[1]
    if kind == 'vhost':
        return len(value) > 127
    limit = 127 if kind == 'exchange' else 256
    if len(value) > limit:
        return True
    return any(c not in ALLOWED for c in value)


def sites():
    out = []
    for name, cons in spec_table.CONSTRAINTS.items():
        for arg, kind in cons:
            out.append((name, arg, kind))
    return out


def tasks(tier, seed):
    out = [('props',)]
    for name, arg, kind in sites():
        out.append(('site', name, arg))
        out.append(('reuse', name, arg))
        if kind in ('exchange', 'queue') and (
                tier == 'thorough' or (name, arg) in FULL_SWEEP_QUICK):
            for lo in range(0, 0x110000, 0x8000):
                out.append(('cp', name, arg, lo, lo + 0x8000))
    return out


def kind_of_site(name, arg):
    for a, k in spec_table.CONSTRAINTS[name]:
        if a == arg:
            return k
    raise KeyError(arg)


def expect(ctx, site, value, way, raised, other, is_broken, case):
    ctx.valid()
    fp = 'validate|{}.{}|{}|{}'.format(site[0], site[1], way,
                                       short(value, 80))
    if other is not None and way == 'constructor':
        # a different exception type from the constructor is not ValueError:
        # counts as "no ValueError" (only wrong-typed inputs get here)
        raised = False
    if raised and not is_broken:
        ctx.outcome('false-reject')
        ctx.violation(fp, '{}({}={}) via {}: ValueError although the value '
                      'satisfies the constraints'.format(
                          site[0], site[1], short(value, 60), way), case,
                      'accepted', 'ValueError')
    elif not raised and is_broken:
        ctx.outcome('false-accept')
        ctx.violation(fp, '{}({}={}) via {}: accepted although the '
                      'constraint is broken{}'.format(
                          site[0], site[1], short(value, 60), way,
                          '' if other is None else ' (raised %r)' % other),
                      case, 'ValueError', 'accepted' if other is None
                      else repr(other))
    else:
        ctx.outcome('rejected' if raised else 'accepted')


def try_constructor(cls, arg, value):
    try:
        cls(**{arg: value})
        return False, None
    except ValueError:
        return True, None
    except Exception as exc:  # noqa
        return False, exc


ORIGINS = ('constructed', 'decoded', 'copied', 'deep-copied', 'unpickled')


def obtain(p, m, cls, origin):
    """A method object as an application comes by one: built, received from
    the decoder, copied, pickled and back. Where it comes from must not
    matter to what its encode validates. None: not obtainable that way."""
    import copy
    import pickle
    try:
        if origin == 'constructed':
            return cls()
        if origin == 'decoded':
            data, _f = refcodec.enc_method_frame(m, corpus.default_vector(m),
                                                 1)
            obj = p.frame.unmarshal(data)[2]
            return obj if type(obj) is cls else None
        if origin == 'copied':
            return copy.copy(cls())
        if origin == 'deep-copied':
            return copy.deepcopy(cls())
        return pickle.loads(pickle.dumps(cls()))
    except Exception:  # noqa - deprecated methods warn, some refuse pickling
        return None


def try_setattr_marshal(p, cls, arg, value, obj=None):
    """Change the attribute after construction, then encode the SAME object
    three times: the verdict must be the same every time (a validation
    result must not be remembered across a failed attempt)."""
    obj = cls() if obj is None else obj
    setattr(obj, arg, value)
    verdicts = []
    other = None
    for attempt in range(3):
        try:
            if attempt == 1:
                obj.marshal()
            else:
                p.frame.marshal(obj, 1)
            verdicts.append(False)
        except ValueError:
            verdicts.append(True)
        except Exception as exc:  # noqa
            verdicts.append(False)
            other = exc
    if len(set(verdicts)) != 1:
        return 'unstable:%r' % (verdicts,), other
    return verdicts[0], other


def check_value(ctx, m, arg, kind, value, ways=('constructor', 'setattr',
                                                'decode')):
    p = lib.pamqp()
    cls = corpus.lib_class_by_name(m)
    is_broken = broken(kind, value)
    site = (m.name, arg)
    case = {'class': m.name, 'arg': arg, 'value': tojson(value)}
    for way in ways:
        ctx.case((m.name, arg, way, value if isinstance(value, (str, int))
                  else repr(value)), True,
                 sample=lambda: {'site': '%s.%s' % site, 'way': way,
                                 'value': short(value, 40),
                                 'broken': is_broken})
        if way == 'constructor':
            raised, other = try_constructor(cls, arg, value)
            ctx.calls()
            expect(ctx, site, value, way, raised, other, is_broken, case)
        elif way == 'setattr':
            raised, other = try_setattr_marshal(p, cls, arg, value)
            ctx.calls(4)
            if isinstance(raised, str):
                ctx.violation('validate|{}.{}|unstable|{}'.format(
                    m.name, arg, short(value, 80)),
                    '{}({}={}) set after construction: encoding the same '
                    'object three times gave ValueError verdicts {} (must be '
                    'the same every time)'.format(
                        m.name, arg, short(value, 60), raised), case,
                    'same verdict every time', raised)
                continue
            # only ValueError is in question here; other encode errors
            # (a 256-character queue name cannot be a short string) are not
            expect(ctx, site, value, way, raised, None if not raised else
                   None, is_broken, case)
            # ... and the same on objects that were not built by the caller
            for origin in ORIGINS[1:]:
                obj = obtain(p, m, cls, origin)
                if obj is None:
                    continue
                ctx.case((m.name, arg, origin, value
                          if isinstance(value, (str, int)) else repr(value)),
                         True)
                raised, _o = try_setattr_marshal(p, cls, arg, value, obj)
                ctx.calls(4)
                if isinstance(raised, str):
                    raised = 'True' in raised and 'False' not in raised
                expect(ctx, site, value, 'setattr on a %s object' % origin,
                       raised, None, is_broken, case)
        else:
            vec = list(corpus.default_vector(m))
            idx = [a[0] for a in m.args].index(arg)
            wire = m.args[idx][1]
            right_type = {'bit': bool, 'short': int, 'shortstr': str,
                          'longstr': str}[wire]
            if type(value) is not right_type:
                continue    # not a value of the argument's wire type
            vec[idx] = value
            try:
                data, _f = refcodec.enc_method_frame(m, vec, 1)
            except (refcodec.RefError, UnicodeEncodeError, TypeError):
                continue    # not representable on the wire
            out = lib.unmarshal_outcome(data)
            ctx.calls()
            ctx.valid()
            if out[0] != 'ok':
                ctx.outcome('decode-rejected')
                ctx.violation('validate|{}.{}|decode|{}'.format(
                    m.name, arg, short(value, 80)),
                    'received {}({}={}) was rejected on decode: {!r}'.format(
                        m.name, arg, short(value, 60), out[1]), case,
                    'decoded without validation', repr(out[1]))
            elif getattr(out[3], arg, 'MISSING') != value:
                ctx.violation('validate|{}.{}|decode-value|{}'.format(
                    m.name, arg, short(value, 80)),
                    'received {}({}={}) decoded as {}'.format(
                        m.name, arg, short(value, 60),
                        short(getattr(out[3], arg, 'MISSING'))), case,
                    short(value), short(getattr(out[3], arg, 'MISSING')))
            else:
                ctx.outcome('decoded')


def fresh(spec):
    """Build a value anew (never a shared constant or an interned string):
    the object of an earlier step is released when the attribute is
    overwritten, so a later one may even take its address."""
    if spec[0] == 'str':
        return ''.join([spec[1]] * spec[2]) + spec[3]
    return spec[1]


def reuse_alphabet(kind, length):
    """[(value spec, broken?)] - two valid and two broken values, the
    strings of one common length so that they can replace each other."""
    if isinstance(kind, tuple):
        fixed = kind[1]
        if isinstance(fixed, bool):
            return [(('val', False), False), (('val', True), True)]
        if isinstance(fixed, int):
            return [(('val', 0), False), (('val', 7), True),
                    (('val', 65535), True)]
        return [(('str', '', 0, fixed), False), (('str', 'x', 1, ''), True),
                (('str', '0', 2, ''), True)]
    limit = {'vhost': 127, 'exchange': 127}.get(kind, 256)
    out = [(('str', 'a', length, ''), False),
           (('str', 'b', length - 1, '.'), False),
           (('str', 'o', 5, ''), False)]
    if kind != 'vhost':
        out += [(('str', '*', length, ''), True),
                (('str', 'a', length - 1, '\n'), True)]
    out.append((('str', 'c', limit + 1, ''), True))
    return out


def check_reuse(ctx, m, arg, kind):
    """ONE long-lived method object per history: its attribute is assigned
    a sequence of freshly built values, encoded after some of the steps; each
    encode must raise ValueError iff the CURRENT value breaks the constraint
    (validation remembered from an earlier value / earlier encode shows)."""
    import itertools
    p = lib.pamqp()
    cls = corpus.lib_class_by_name(m)
    lengths = (20, 33, 64, 100) if not isinstance(kind, tuple) else (0,)
    for length in lengths:
        alpha = reuse_alphabet(kind, length)
        n = len(alpha)
        for depth in (2, 3):
            for seq in itertools.product(range(n), repeat=depth):
                # encode after: every step / first and last / last only
                for mode in ('all', 'ends', 'last', 'last, received object'):
                    ctx.case((m.name, arg, 'reuse', length, seq, mode), True,
                             sample=lambda: {
                                 'site': '%s.%s' % (m.name, arg),
                                 'assigned': [alpha[i][0] for i in seq],
                                 'encode_after': mode})
                    obj = cls()
                    if mode == 'last, received object':
                        # this history once more on a received object
                        obj = obtain(p, m, cls, 'decoded')
                        if obj is None or depth != 2:
                            continue
                    for pos, i in enumerate(seq):
                        setattr(obj, arg, fresh(alpha[i][0]))
                        if not (mode == 'all' or pos == depth - 1 or
                                (mode == 'ends' and pos == 0)):
                            continue
                        try:
                            if pos % 2:
                                obj.marshal()
                            else:
                                p.frame.marshal(obj, 1)
                            raised = False
                        except ValueError:
                            raised = True
                        except Exception:  # noqa
                            raised = False
                        ctx.calls()
                        ctx.valid()
                        if raised != alpha[i][1]:
                            ctx.outcome('false-reject' if raised
                                        else 'false-accept')
                            ctx.violation(
                                'validate|{}.{}|reuse|{}|{}|{}'.format(
                                    m.name, arg, length, seq, mode),
                                '{}: one object, {} assigned {} in turn '
                                '(encoded after {} steps): at step {} the '
                                'encode {} although the current value {} the '
                                'constraint'.format(
                                    m.name, arg,
                                    [short(fresh(alpha[j][0]), 24)
                                     for j in seq], mode, pos + 1,
                                    'raised ValueError' if raised
                                    else 'was accepted',
                                    'breaks' if alpha[i][1] else 'satisfies'),
                                {'class': m.name, 'arg': arg, 'reuse': True},
                                'ValueError' if alpha[i][1] else 'accepted',
                                'ValueError' if raised else 'accepted')
                            break
                        ctx.outcome('rejected' if raised else 'accepted')


def name_values():
    for n in LENGTHS:
        yield 'a' * n
        yield '.' * n
    yield ' '
    yield 'amq.topic'
    yield 'tag:example.org,2000:q/1 @#_-'
    yield spec_table.NAME_CHARS
    yield spec_table.NAME_CHARS + '\n'
    yield 'a\n'
    yield '\na'
    yield 'a\nb'
    yield 'é'
    yield 'a' * 126 + 'é'
    yield 'a' * 127 + '*'
    yield 'a' * 255 + '!'
    yield '!' + 'a' * 255
    for cp in list(range(0x300)) + LOOKALIKES:
        c = chr(cp)
        yield c
        yield 'a' + c + 'a'
        yield c + 'a'
        yield 'a' + c


def run(task, ctx):
    p = lib.pamqp()
    kind = task[0]
    if kind == 'props':
        cls = p.commands.Basic.Properties
        for dm in list(range(-1, 257)) + [65536, -256]:
            is_broken = broken(('oneof', (1, 2)), dm)
            ctx.case(('delivery_mode', dm), True,
                     sample={'site': 'Basic.Properties.delivery_mode',
                             'value': dm, 'broken': is_broken})
            raised, other = try_constructor(cls, 'delivery_mode', dm)
            ctx.calls()
            expect(ctx, ('Basic.Properties', 'delivery_mode'), dm,
                   'constructor', raised, other, is_broken,
                   {'class': 'Basic.Properties', 'arg': 'delivery_mode',
                    'value': dm})
            if dm is not None and 0 <= dm <= 255:
                data, _f = refcodec.enc_header_frame(
                    1, {'delivery_mode': dm}, 1)
                out = lib.unmarshal_outcome(data)
                ctx.calls()
                if out[0] != 'ok' or out[3].properties.delivery_mode != dm:
                    ctx.violation('validate|props|decode|dm%d' % dm,
                                  'received delivery_mode {} not decoded '
                                  'as-is: {}'.format(dm, short(out[1:])),
                                  {'class': 'Basic.Properties', 'arg':
                                   'delivery_mode', 'value': dm}, dm,
                                  short(out[1:]))
        for cid in ['', 'x', ' ', '0', 'cluster']:
            is_broken = broken(('fixed', ''), cid)
            ctx.case(('cluster_id', cid), True)
            raised, other = try_constructor(cls, 'cluster_id', cid)
            ctx.calls()
            expect(ctx, ('Basic.Properties', 'cluster_id'), cid,
                   'constructor', raised, other, is_broken,
                   {'class': 'Basic.Properties', 'arg': 'cluster_id',
                    'value': cid})
            if cid:
                data, _f = refcodec.enc_header_frame(1, {'cluster_id': cid}, 1)
                out = lib.unmarshal_outcome(data)
                ctx.calls()
                if out[0] != 'ok' or out[3].properties.cluster_id != cid:
                    ctx.violation('validate|props|decode|cid' + cid,
                                  'received cluster_id {!r} not decoded '
                                  'as-is'.format(cid),
                                  {'class': 'Basic.Properties', 'arg':
                                   'cluster_id', 'value': cid}, cid,
                                  short(out[1:]))
        # every other property takes any value of its type
        for name, wt, _b in spec_table.PROPERTIES:
            if name in ('delivery_mode', 'cluster_id'):
                continue
            for v in corpus.prop_value_domain(name, wt):
                ctx.case(('prop', name, repr(v)[:80]), True)
                raised, other = try_constructor(cls, name, v)
                ctx.calls()
                expect(ctx, ('Basic.Properties', name), v, 'constructor',
                       raised, other, False,
                       {'class': 'Basic.Properties', 'arg': name,
                        'value': tojson(v)})
        return
    m = spec_table.BY_NAME[task[1]]
    arg = task[2]
    k = kind_of_site(m.name, arg)
    if kind == 'reuse':
        check_reuse(ctx, m, arg, k)
    elif kind == 'site':
        if isinstance(k, tuple):
            fixed = k[1]
            if isinstance(fixed, bool):
                vals = [False, True, 1]
            elif isinstance(fixed, int):
                vals = [0, 1, 5, -1, 65535, 65536, True, False]
            else:
                vals = ['', '0', 'x', ' ', '00', 'a' * 255]
            for v in vals:
                check_value(ctx, m, arg, k, v)
        elif k == 'vhost':
            for v in ['/', '', 'a' * 126, 'a' * 127, 'a' * 128, 'a' * 255,
                      'a' * 256, 'é' * 127, 'é' * 128, '*?\n',
                      '\U0001F600' * 127, '\U0001F600' * 128]:
                check_value(ctx, m, arg, k, v)
        else:
            for v in name_values():
                check_value(ctx, m, arg, k, v)
    else:
        cls = corpus.lib_class_by_name(m)
        lo, hi = task[3], min(task[4], 0x110000)
        for cp in range(lo, hi):
            c = chr(cp)
            ok_char = c in ALLOWED
            for v in (c, 'a' + c + 'a'):
                ctx.evaluations += 1
                raised, other = try_constructor(cls, arg, v)
                if raised == ok_char or other is not None:
                    check_value(ctx, m, arg, k, v, ways=('constructor',))
            for v in (c + 'a', 'a' + c):
                ctx.evaluations += 1
                raised, other = try_constructor(cls, arg, v)
                if raised == ok_char or other is not None:
                    check_value(ctx, m, arg, k, v, ways=('constructor',))
        n = (hi - lo) * 4
        ctx.transitions += n
        ctx.validated += n
        ctx.outcomes['cp-sweep-ok'] += n
        # distinct-state accounting for the sweep: one hash per code point
        # and form (kept compact: the range is recorded, not every string)
        for cp in range(lo, hi):
            h = hash((m.name, arg, cp))
            ctx.states.add(h)
            ctx.nontrivial.add(h)
        ctx.samples.append({'site': '%s.%s' % (m.name, arg),
                            'code_points': '%#x..%#x' % (lo, hi - 1),
                            'forms': ['c', 'aca', 'ca', 'ac']})


def replay(case, ctx):
    if case['class'] == 'Basic.Properties':
        run(('props',), ctx)
        ctx.violations = [v for v in ctx.violations
                          if v['case'].get('arg') == case['arg'] and
                          v['case'].get('value') == case['value']]
        return
    m = spec_table.BY_NAME[case['class']]
    if case.get('reuse'):
        check_reuse(ctx, m, case['arg'], kind_of_site(m.name, case['arg']))
        return
    check_value(ctx, m, case['arg'], kind_of_site(m.name, case['arg']),
                fromjson(case['value']))
