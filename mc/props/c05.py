"""C05 - the decoder accepts every well-formed wire frame a peer may send."""
import itertools
import struct

from mc import alphabets as A
from mc import corpus, lib, refcodec, runner, spec_table
from mc.canon import short
from mc.refcodec import Raw

ID = 'C05'
LEVEL = 'model_checking'
RULE = ('Reference generator + E1: wire frames built from the grammar with '
        'liberties the library\'s encoder never takes: every tag t/b/B with '
        'all 256 and s/u with all 65536 payloads, every integer of the '
        'boundary set in every wider tag, boundary payloads of I i l L f d D '
        'T S x, V and 0x00, unsorted keys (all permutations of 4), non-UTF-8 '
        'long strings, unused flag bit, continuation flag word, foreign '
        'class id / weight, values the send-side validators refuse, every '
        'method class x <=1-deviation vectors, and the dense interior sweeps '
        'of C01 reference-encoded; arrays of n values of one tag for each of '
        '17 tags and every n of 0..69, 100, 255, 256, 400 (sign-bit '
        'payloads, all-same / alternating / one foreign element); tag L with '
        'the top bit set (signed in the library documentation, unsigned in '
        'the specification) is held to ONE reading at every position and '
        'array length. Each frame is decoded by the '
        'independent reference decoder and by the library; a case is one '
        'wire frame (or value encoding); non-trivial = all.'
        ' '
        'Also: frames beyond 1, 2 and 4 MiB - long strings with a 2-, '
        '3- or 4-byte character across every MiB mark at each byte '
        'offset, non-UTF-8 long strings before / after / inside that '
        'much filler in tables, arrays, nested tables and headers '
        '(type-strict: str, or bytes, not a view); properties flagged '
        'present with an empty value.')
BOUNDS = {'quick': {'tags_8bit': 'all 256', 'tags_16bit': 'all 65536',
                    'timestamps': 'boundary set', 'vectors': '<=1 deviation'},
          'thorough': {'tags_8bit': 'all 256', 'tags_16bit': 'all 65536',
                       'payload_patterns': '6^4 (x6) per wide tag',
                       'flag_words': 'all 16384 with the unused bit set',
                       'timestamps': 'boundary set + 2^k sweep',
                       'vectors': '<=2 deviations'}}
ASSUMPTIONS = ['reference decoder mc/refcodec.py; not asserted: duplicate '
               'keys, reserved bits of a bit octet, NUL in short strings',
               'millisecond timestamps are compared within 1 ms (the library '
               'divides in floating point)']

QD = spec_table.BY_NAME['Queue.Declare']


def tasks(tier, seed):
    out = [('tag8', t) for t in 'tbB']
    out += [('tag16', t, lo) for t in 'su' for lo in range(0, 65536, 8192)]
    if tier == 'thorough':
        out += [('patterns', t) for t in 'IilLfdDT']
        out += [('flagwords', hi) for hi in range(0, 256, 16)]
    out += [('wide',), ('payloads',), ('strings',), ('unsorted',),
            ('timestamps',), ('headers',), ('invalid-on-send',), ('nested',),
            ('huge',)]
    out += [('methods', m.name) for m in spec_table.METHODS]
    out += [('dense',) + t for t in corpus.dense_tasks(tier)]
    out += [('tagarrays', t) for t in 'tbBsuIilLfdDSTFVx']
    out += [('L-reading', part) for part in range(4)]
    out += [('tagfill', t) for t in 'bBsuIilLfdTt']
    from mc import values
    out += values.codepoint_tasks()
    return out


def env_tasks(tier, seed):
    """What is repeated in an interpreter started with other flags (-bb), with
    and without debug logging: the liberties that reach rarely used decode
    paths (raw bytes for non-UTF-8 long strings, unknown-on-send values...)."""
    pick = [('wide',), ('payloads',), ('strings',), ('unsorted',),
            ('timestamps',), ('headers',), ('invalid-on-send',), ('nested',)]
    pick += [('methods', m.name) for m in spec_table.METHODS]
    return pick + [('debug-logging',) + t for t in pick]


def raw_table(items):
    body = b''
    for key, vb in items:
        kb = key.encode('utf-8') if isinstance(key, str) else key
        body += bytes([len(kb)]) + kb + vb
    return struct.pack('>I', len(body)) + body


def frame_with_value(vb, channel=1):
    """Queue.Declare frame whose arguments table is {'k': <value bytes>}."""
    table = Raw(raw_table([('k', vb)]))
    data, _f = refcodec.enc_method_frame(
        QD, (0, 'q', False, False, False, False, False, table), channel)
    return data


def check_frame(ctx, data, label):
    """Decode one well-formed frame with both decoders and compare."""
    p = lib.pamqp()
    case = {'kind': 'frame', 'hex': data.hex(), 'label': label}
    fp = 'accept|' + (data.hex() if len(data) <= 300 else
                      label + '|' + data[:120].hex())
    try:
        ref = refcodec.dec_frame(data)
    except refcodec.RefError as exc:
        raise AssertionError('generator produced a frame the reference '
                             'rejects: {} {} {}'.format(label, exc,
                                                        data.hex()[:200]))
    unrepresentable = any(
        lib.has_unrepresentable(v) for v in
        (ref.get('args') or []) + list((ref.get('properties') or
                                        {}).values()))
    try:
        with runner.guard(10):
            out = lib.unmarshal_outcome(data)
    except runner.Hang:
        ctx.outcome('hang')
        ctx.violation(fp, '{}: decoding a well-formed frame did not '
                      'terminate ({})'.format(label, data.hex()[:160]),
                      case, 'decoded', 'no termination within 10 s')
        return
    ctx.calls()
    ctx.valid()
    if unrepresentable:
        if out[0] == 'ok':
            ctx.outcome('unrepresentable-returned')
            ctx.violation(fp, '{}: a timestamp beyond year 9999 was returned '
                          'as {} instead of being refused'.format(
                              label, short(lib.frame_summary(out[3]), 300)),
                          case, 'refused', 'returned')
        else:
            ctx.outcome('refused-unrepresentable')
        return
    if out[0] != 'ok':
        ctx.outcome('rejected')
        ctx.violation(fp, '{}: well-formed frame rejected with {!r} '
                      '({})'.format(label, out[1], data.hex()[:160]), case,
                      'accepted', repr(out[1]))
        return
    bad = lib.compare_frame(ref, out[1], out[2], out[3])
    if bad:
        ctx.outcome('mismatch')
        ctx.violation(fp, '{}: {} ({})'.format(label, '; '.join(bad)[:500],
                                               data.hex()[:160]), case,
                      'reference decoder values', bad[:6])
    else:
        ctx.outcome('ok')


def check_value(ctx, vb, label, through_frame=True):
    """A single table value encoding: decode.embedded_value + in a frame."""
    p = lib.pamqp()
    ctx.case(('v', vb), True, sample=lambda: {'value_bytes': vb.hex()[:80],
                                              'label': label})
    case = {'kind': 'value', 'hex': vb.hex(), 'label': label}
    fp = 'accept-value|' + vb.hex()[:300]
    r = refcodec.R(vb)
    want = refcodec.get_value(r)
    assert r.pos == len(vb), (label, vb)
    if not lib.has_unrepresentable(want):
        try:
            consumed, got = p.decode.embedded_value(vb)
            ctx.calls()
            ctx.valid()
            if consumed != len(vb) or not lib.value_matches(want, got):
                ctx.outcome('mismatch')
                ctx.violation(fp, '{}: decode.embedded_value({}) = ({}, {}) '
                              'but the reference reads ({}, {})'.format(
                                  label, vb.hex()[:80], consumed, short(got),
                                  len(vb), short(want)), case, short(want),
                              short(got))
            else:
                ctx.outcome('ok')
        except Exception as exc:  # noqa
            ctx.outcome('rejected')
            ctx.violation(fp, '{}: decode.embedded_value rejected the '
                          'well-formed value {}: {!r}'.format(
                              label, vb.hex()[:80], exc), case, short(want),
                          repr(exc))
    if through_frame:
        check_frame(ctx, frame_with_value(vb), label)


INT_TAGS = 'bBsuIilL'


def fits(tag, n):
    fmt = refcodec.INT_FMT[tag]
    try:
        struct.pack(fmt, n)
        return not (tag == 'L' and n < 0)
    except struct.error:
        return False


def run(task, ctx):
    if task[0] == 'debug-logging':
        with lib.debug_logging():
            return run(task[1:], ctx)
    kind = task[0]
    if kind == 'tag8':
        for b in range(256):
            check_value(ctx, task[1].encode() + bytes([b]), 'tag ' + task[1])
    elif kind == 'tag16':
        for n in range(task[2], task[2] + 8192):
            check_value(ctx, task[1].encode() + struct.pack('>H', n),
                        'tag ' + task[1], through_frame=(n % 64 == 0 or
                                                         n % 256 == 255))
    elif kind == 'patterns':
        # every payload over the sharp byte set: 6^4 for 4-byte tags,
        # 6^4 x 6 (high half free, low half one repeated byte) for 8-byte
        tag = task[1]
        sharp = (0x00, 0x01, 0x7f, 0x80, 0xff, 0xce)
        width = {'I': 4, 'i': 4, 'f': 4, 'D': 5}.get(tag, 8)
        for head in itertools.product(sharp, repeat=4):
            tails = [b''] if width == 4 else \
                [bytes([b]) * (width - 4) for b in sharp]
            for tail in tails:
                payload = bytes(head) + tail
                if tag == 'L' and payload[0] & 0x80:
                    continue
                check_value(ctx, tag.encode() + payload, 'pattern ' + tag,
                            through_frame=(head[0] == head[3]))
    elif kind == 'flagwords':
        # every first flag word with bits 15..2 free and bits 1..0 clear is
        # covered by C02/C04 through the encoder; here every flag word with
        # the unused bit 1 set, property data taken from the reference
        for hi in range(task[1], task[1] + 16):
            for lo in range(0, 256, 4):
                word = (hi << 8) | lo | 2
                mask = 0
                for i, (_n, _t, bit) in enumerate(spec_table.PROPERTIES):
                    if word & (1 << bit) and i < 13:
                        mask |= 1 << i
                props = corpus.props_for_subset(mask)
                if word & 4:
                    props['cluster_id'] = 'c'
                data, _f = refcodec.enc_header_frame(9, props, 7,
                                                     extra_flags=2)
                ctx.case(('f', data), True)
                check_frame(ctx, data, 'flag word %04x' % word)
    elif kind == 'wide':
        for n in A.INTS:
            for tag in INT_TAGS:
                if fits(tag, n):
                    check_value(ctx, tag.encode() + struct.pack(
                        refcodec.INT_FMT[tag], n), 'int %d as %s' % (n, tag))
    elif kind == 'payloads':
        pats = [b'\x00', b'\xff', b'\x7f', b'\x80', b'\x01', b'\xce']
        for tag, width in (('I', 4), ('i', 4), ('l', 8), ('f', 4), ('d', 8),
                           ('L', 8)):
            for first in pats:
                for rest in pats:
                    payload = first + rest * (width - 1)
                    if tag == 'L' and payload[0] & 0x80:
                        continue   # L above 2^63: readings differ, skipped
                    check_value(ctx, tag.encode() + payload,
                                'payload of ' + tag)
        for f in A.FLOATS:
            try:
                check_value(ctx, b'f' + struct.pack('>f', f), 'float')
            except OverflowError:
                pass
            check_value(ctx, b'd' + struct.pack('>d', f), 'double')
        for scale in (0, 1, 2, 7, 38, 255):
            for unscaled in (0, 1, -1, 15, -15, 2**31 - 1, -2**31, 314159):
                check_value(ctx, b'D' + bytes([scale]) +
                            struct.pack('>i', unscaled), 'decimal')
        for vb in (b'V', b'\x00'):
            check_value(ctx, vb, 'void')
        for payload in (b'', b'\x00', b'\xce', b'AMQP', bytes(range(256))):
            check_value(ctx, b'x' + struct.pack('>I', len(payload)) + payload,
                        'byte array')
    elif kind == 'strings':
        good = ['', 'a', 'é€\U0001F600', '\x00', 'Ύ', 'a' * 300]
        bad = [b'\xff', b'\xc3', b'abc\xfe', b'\xed\xa0\x80', b'\xc0\xaf',
               b'\xf4\x90\x80\x80', b'ok\xce\xce\xce',
               # valid UTF-8 cut inside its last multi-byte sequence
               b'abc\xe2\x9c', b'r\xc3\xa9sum\xc3', b'\xf0\x9f\x94',
               b'\x00PLAIN\x00secret\xf0\x9f', b'\xe2', b'a\xe2\x82',
               # ... and continuation bytes without a lead byte
               b'\x80', b'abc\xbf', b'\xe2\x82\xac\x80']
        for s in good:
            raw = s.encode('utf-8')
            check_value(ctx, b'S' + struct.pack('>I', len(raw)) + raw,
                        'long string')
        for raw in bad:
            check_value(ctx, b'S' + struct.pack('>I', len(raw)) + raw,
                        'non-UTF-8 long string')
        # long-string method arguments that are not UTF-8 come back as bytes
        for raw in bad + [b'\x00PLAIN\x00\xff']:
            m = spec_table.BY_NAME['Connection.StartOk']
            data, _f = refcodec.enc_method_frame(
                m, ({}, 'PLAIN', Raw(struct.pack('>I', len(raw)) + raw),
                    'en_US'), 0)
            ctx.case(('f', data), True)
            check_frame(ctx, data, 'non-UTF-8 longstr argument')
    elif kind == 'huge':
        # frames beyond 1, 2 and 4 MiB (a larger frame-max is negotiated):
        # long strings with a multi-byte character across every MiB mark, at
        # each of its byte offsets; non-UTF-8 long strings inside containers
        # that large; the values must be what they are in small frames, of
        # the same types (a str, or the raw bytes - not a view)
        m = spec_table.BY_NAME['Connection.StartOk']
        mib = 1 << 20
        for size in (mib, 2 * mib, 4 * mib):
            for ch in ('\xe9', '\u20ac', '\U0001f600'):
                width = len(ch.encode('utf-8'))
                for lead in range(1, width):
                    # the character's first byte sits `lead` bytes before
                    # the mark
                    text = 'a' * (size - lead) + ch + 'b' * 40
                    raw = text.encode('utf-8')
                    data, _f = refcodec.enc_method_frame(
                        m, ({}, 'PLAIN', Raw(struct.pack('>I', len(raw)) +
                                             raw), 'en_US'), 0)
                    ctx.case(('huge', size, ch, lead, 'arg'), True)
                    check_frame(ctx, data, 'longstr argument of %d bytes, %r '
                                'across the %d MiB mark' % (len(raw), ch,
                                                            size // mib))
                    if size == mib:
                        vb = b'S' + struct.pack('>I', len(raw)) + raw
                        check_value(ctx, vb, 'long string across the MiB '
                                    'mark', through_frame=False)
                        table = Raw(raw_table([('k', vb), ('z', b't\x01')]))
                        data, _f = refcodec.enc_method_frame(
                            QD, (0, 'q', False, False, False, False, False,
                                 table), 1)
                        ctx.case(('huge', size, ch, lead, 'table'), True)
                        check_frame(ctx, data, 'table value across the MiB '
                                    'mark')
            filler = b'S' + struct.pack('>I', size) + b'f' * size
            for bad in (b'\xff', b'caf\xe9', b'\x00PLAIN\x00\xff\xfe'):
                odd = b'S' + struct.pack('>I', len(bad)) + bad
                arr = b'A' + struct.pack('>I', len(odd) + len(filler)) + \
                    odd + filler
                for label, items in (
                        ('before the filler', [('a', odd), ('f', filler)]),
                        ('after the filler', [('f', filler), ('z', odd)]),
                        ('in an array', [('arr', arr)]),
                        ('in a nested table', [('n', b'F' + raw_table(
                            [('f', filler), ('z', odd)]))])):
                    table = Raw(raw_table(items))
                    data, _f = refcodec.enc_method_frame(
                        QD, (0, 'q', False, False, False, False, False,
                             table), 1)
                    ctx.case(('huge', size, bad, label), True)
                    check_frame(ctx, data, 'non-UTF-8 long string %s of a '
                                '%d MiB container' % (label, size // mib))
                    props = {'headers': table}
                    data, _f = refcodec.enc_header_frame(1, props, 1)
                    ctx.case(('huge', size, bad, label, 'h'), True)
                    check_frame(ctx, data, 'non-UTF-8 long string %s of %d '
                                'MiB headers' % (label, size // mib))
    elif kind == 'unsorted':
        keys = ['b', 'a', 'é', '']
        vals = [b'b\x01', b'S\x00\x00\x00\x01x', b't\x01', b'V']
        for perm in itertools.permutations(range(4)):
            for depth in (0, 1):
                t = raw_table([(keys[i], vals[i]) for i in perm])
                if depth:
                    t = raw_table([('z', b'F' + t), ('y', b'A' + struct.pack(
                        '>I', len(t) + 1) + b'F' + t)])
                data, _f = refcodec.enc_method_frame(
                    QD, (0, 'q', False, True, False, False, False, Raw(t)), 3)
                ctx.case(('f', data), True,
                         sample=lambda: {'unsorted_table': t.hex()[:80]})
                check_frame(ctx, data, 'unsorted keys')
                data, _f = refcodec.enc_header_frame(1, {'headers': Raw(t)}, 3)
                ctx.case(('f', data), True)
                check_frame(ctx, data, 'unsorted header keys')
    elif kind == 'timestamps':
        secs = [0, 1, 2**31 - 1, 2**31, 2**32 - 1, 1600000000]
        ms = [2**32, 2**32 + 1, 1600000000000, 1600000000999,
              253402300799000, 253402300799999]
        beyond = [253402300800000, 2**63 - 1, 2**63, 2**64 - 1,
                  10**16, 10**17]
        if ctx.tier == 'thorough':
            secs += [2**k for k in range(1, 32)] + [2**k - 1
                                                    for k in range(2, 32)]
            ms += [2**k for k in range(33, 47)] + [2**k + 1
                                                   for k in range(33, 47)]
            beyond += [2**k for k in range(48, 63)]
        for raw in secs + ms + beyond:
            vb = b'T' + struct.pack('>Q', raw)
            check_value(ctx, vb, 'timestamp %d' % raw)
            data, _f = refcodec.enc_header_frame(
                0, {'timestamp': Raw(struct.pack('>Q', raw))}, 1)
            ctx.case(('f', data), True)
            check_frame(ctx, data, 'timestamp property %d' % raw)
    elif kind == 'headers':
        full = corpus.props_for_subset(0x1FFF)
        variants = []
        for props in ({}, {'content_type': 'a'}, full):
            for extra in (0, 2):
                for class_id in (60, 0, 10, 65535):
                    for weight in (0, 1, 65535):
                        variants.append((props, extra, class_id, weight))
        for props, extra, class_id, weight in variants:
            data, _f = refcodec.enc_header_frame(
                5, props, 2, class_id=class_id, weight=weight,
                extra_flags=extra)
            ctx.case(('f', data), True, sample=lambda: {
                'header': data.hex()[:80], 'extra_flags': extra,
                'class_id': class_id, 'weight': weight})
            check_frame(ctx, data, 'header class=%d weight=%d extra=%d' % (
                class_id, weight, extra))
        # properties a peer flags as present with an EMPTY value (what other
        # clients send for reply_to='' or an empty headers table): present
        # and empty is not absent
        strs = [n for n, t, _b in spec_table.PROPERTIES if t == 'shortstr']
        empties = [{n: Raw(b'\x00')} for n in strs]
        empties += [dict(full, **{n: Raw(b'\x00')}) for n in strs]
        empties += [{n: Raw(b'\x00') for n in strs},
                    {'headers': Raw(b'\x00\x00\x00\x00')},
                    dict(full, headers=Raw(b'\x00\x00\x00\x00')),
                    {'headers': Raw(b'\x00\x00\x00\x00'),
                     'content_type': Raw(b'\x00'), 'app_id': 'a'},
                    {'priority': 0, 'delivery_mode': Raw(b'\x00'),
                     'timestamp': Raw(bytes(8))}]
        for props in empties:
            data, _f = refcodec.enc_header_frame(1, props, 3)
            ctx.case(('f', data), True)
            check_frame(ctx, data, 'header with properties present but '
                        'empty: ' + ', '.join(sorted(
                            k for k, v in props.items()
                            if isinstance(v, Raw))))
        # every body size of the alphabet (unsigned 64 bit on the wire)
        for size in A.BODY_SIZE + [2**63 + 1, 2**64 - 2, 2**32 + 1]:
            for props in ({}, {'priority': 1}):
                data, _f = refcodec.enc_header_frame(size, props, 9)
                ctx.case(('f', data), True)
                check_frame(ctx, data, 'body size %d' % size)
        # continuation flag word followed by an empty word
        for props in ({}, {'content_type': 'a'}, full):
            data, fields = refcodec.enc_header_frame(5, props, 2)
            off = [o for o, w, k in fields if k == 'flags'][0]
            flags = struct.unpack('>H', data[off:off + 2])[0]
            payload = data[7:off] + struct.pack('>HH', flags | 1, 0) + \
                data[off + 2:-1]
            cont = data[:3] + struct.pack('>I', len(payload)) + payload + \
                b'\xce'
            ctx.case(('f', cont), True)
            check_frame(ctx, cont, 'continuation flag word')
        # every presence subset, received with the deprecated cluster-id set
        for mask in range(0, 1 << 13, 41 if ctx.tier == 'quick' else 5):
            props = corpus.props_for_subset(mask)
            props['cluster_id'] = 'x'
            props['delivery_mode'] = 7
            data, _f = refcodec.enc_header_frame(mask, props, 1)
            ctx.case(('f', data), True)
            check_frame(ctx, data, 'cluster_id/delivery_mode not valid on '
                        'send')
    elif kind == 'invalid-on-send':
        bad_names = ['bad*name', 'a' * 128, 'a' * 255, 'é', 'x\ny', '*']
        for name, cons in spec_table.CONSTRAINTS.items():
            m = spec_table.BY_NAME[name]
            base = list(corpus.default_vector(m))
            idx = {a[0]: i for i, a in enumerate(m.args)}
            for arg, kindc in cons:
                wt = m.args[idx[arg]][1]
                if isinstance(kindc, tuple):
                    alts = {'short': [5, 65535], 'shortstr': ['x', 'a' * 255],
                            'longstr': ['x', '1'], 'bit': [True]}[wt]
                elif kindc == 'vhost':
                    alts = ['a' * 128, 'a' * 255]
                else:
                    alts = bad_names
                for alt in alts:
                    vec = list(base)
                    vec[idx[arg]] = alt
                    data, _f = refcodec.enc_method_frame(m, vec, 1)
                    ctx.case(('f', data), True, sample=lambda: {
                        'method': name, 'argument': arg,
                        'received_value': short(alt, 40)})
                    check_frame(ctx, data, '{}({}={})'.format(
                        name, arg, short(alt, 40)))
    elif kind == 'nested':
        for depth in (1, 2, 8, 32, 60):
            for pattern in ('list', 'dict', 'alt', 'alt2'):
                v = A.deep(depth, pattern)
                vb = refcodec.enc_value(v)
                check_value(ctx, vb, 'nesting depth %d %s' % (depth, pattern))
        rich = refcodec.enc_value(A.rich_table())
        check_value(ctx, rich, 'rich table')
    elif kind == 'tagarrays':
        # arrays of n values of ONE tag, for every n of a dense range, with
        # payloads that exercise the sign bit; all-same and alternating
        tag = task[1]
        width = {'t': 1, 'b': 1, 'B': 1, 's': 2, 'u': 2, 'I': 4, 'i': 4,
                 'l': 8, 'L': 8, 'f': 4, 'd': 8, 'D': 5, 'T': 8}.get(tag)
        if width is not None:
            pays = [b'\xff' * width, b'\x80' + b'\x00' * (width - 1),
                    b'\x7f' + b'\xff' * (width - 1), b'\x00' * width]
            if tag == 'L':
                pays = pays[2:]
            if tag == 'T':
                pays = [struct.pack('>Q', 1600000000), struct.pack('>Q', 0)]
            if tag == 'D':
                pays = [b'\x02\xff\xff\xff\x85', b'\x00\x00\x00\x00\x07']
            if tag in 'fd':
                pays = [struct.pack('>f' if tag == 'f' else '>d', x)
                        for x in (1.5, -2.0)]
            elems = [tag.encode() + q for q in pays]
        elif tag == 'S':
            elems = [b'S\x00\x00\x00\x01a', b'S\x00\x00\x00\x00']
        elif tag == 'x':
            elems = [b'x\x00\x00\x00\x01\xce', b'x\x00\x00\x00\x00']
        elif tag == 'F':
            elems = [b'F\x00\x00\x00\x00', b'F\x00\x00\x00\x03\x01kV']
        else:
            elems = [b'V', b'\x00']
        counts = list(range(0, 70)) + [100, 255, 256, 400]
        for n in counts:
            variants = [[elems[0]] * n,
                        [elems[i % len(elems)] for i in range(n)]]
            if n > 2:
                mixed = [elems[0]] * n
                mixed[n // 2] = b't\x01'
                variants.append(mixed)
            for items in variants:
                body = b''.join(items)
                vb = b'A' + struct.pack('>I', len(body)) + body
                check_value(ctx, vb, 'array of %d x tag %s' % (n, tag),
                            through_frame=(n % 8 == 0))
    elif kind == 'codepoints':
        run_codepoints(ctx, task[1], task[2])
    elif kind == 'tagfill':
        run_tagfill(ctx, task[1])
    elif kind == 'L-reading':
        run_l_reading(ctx, task[1])
    elif kind == 'dense':
        # interior values: the reference-encoded dense sweeps of C01
        for m, vec, ch in corpus.dense_cases(task[1:], ctx.tier):
            if any(A.nesting(v) > 64 for v in vec
                   if isinstance(v, (dict, list))):
                continue    # beyond the depth a decoder must handle (C09)
            data, _f = refcodec.enc_method_frame(m, vec, ch)
            ctx.case(('f', data), True, sample=lambda: {
                'method': m.name, 'vec': short(list(vec), 100),
                'dense': task[1]})
            check_frame(ctx, data, m.name + ' (dense ' + task[1] + ')')
    elif kind == 'methods':
        m = spec_table.BY_NAME[task[1]]
        maxdev = 2 if ctx.tier == 'thorough' else 1
        for vec in corpus.dev_vectors(m, maxdev, wide=True):
            for ch in (0, 65535):
                data, _f = refcodec.enc_method_frame(m, vec, ch)
                ctx.case(('f', data), True, sample=lambda: {
                    'method': m.name, 'vec': short(list(vec), 120),
                    'channel': ch})
                check_frame(ctx, data, m.name)


def run_codepoints(ctx, lo, hi):
    """Every code point alone / first / last in a long string and in field
    names, reference-encoded, decoded by the library: array value, table
    value, long-string and short-string method arguments."""
    from mc import values
    p = lib.pamqp()
    so = spec_table.BY_NAME['Connection.SecureOk']
    pub = spec_table.BY_NAME['Basic.Publish']
    for first, strings, names in values.codepoint_blocks(lo, hi):
        ctx.case(('cp', first), True, sample=lambda: {
            'code_points': '%#x..%#x' % (first, first + values.CP_BLOCK - 1)})
        case = {'kind': 'codepoints', 'lo': first,
                'hi': first + values.CP_BLOCK}
        for label, data, dec, want in (
                ('array of strings', refcodec.enc_array(strings),
                 p.decode.field_array, strings),
                ('field names', refcodec.enc_table(names),
                 p.decode.field_table, names)):
            try:
                consumed, got = dec(data)
                ctx.calls()
                ctx.valid()
                ok = consumed == len(data) and lib.canon(got) == \
                    lib.canon(want)
            except Exception as exc:  # noqa
                ok, got = False, repr(exc)
            if not ok:
                diff = ''
                if isinstance(got, list):
                    for a, b in zip(want, got):
                        if a != b:
                            diff = ' (sent %r, decoded %r)' % (a, b)
                            break
                ctx.outcome('mismatch')
                ctx.violation('accept|codepoints|%#x|%s' % (first, label),
                              '%s with code points %#x..%#x: decoded value '
                              'differs from what was sent%s' % (
                                  label, first,
                                  first + values.CP_BLOCK - 1, diff), case,
                              short(want, 200), short(got, 200))
            else:
                ctx.outcome('ok')
        # as method arguments (long string / short string), three per block
        for s in (strings[0], strings[1], strings[-1]):
            for m, vec, idx in ((so, (s,), 0),
                                (pub, (0, '', s, False, False), 2)):
                data, _f = refcodec.enc_method_frame(m, vec, 1)
                out = lib.unmarshal_outcome(data)
                ctx.calls()
                ctx.valid()
                if out[0] != 'ok' or getattr(out[3], m.args[idx][0]) != s:
                    ctx.outcome('mismatch')
                    ctx.violation('accept|codepoints|%#x|%s' % (first, m.name),
                                  '%s argument %r was decoded as %s' % (
                                      m.name, s, short(
                                          getattr(out[3], m.args[idx][0])
                                          if out[0] == 'ok' else out[1],
                                          80)), case, repr(s), 'other')
                else:
                    ctx.outcome('ok')


_WIDTH = {'t': 1, 'b': 1, 'B': 1, 's': 2, 'u': 2, 'I': 4, 'i': 4, 'l': 8,
          'L': 8, 'f': 4, 'd': 8, 'T': 8}


def run_tagfill(ctx, first_tag):
    """Mixed arrays in which the payload bytes of one element equal the TAG
    bytes of its neighbours (a decoder that counts or searches tag bytes, or
    assumes a stride, instead of walking the elements is fooled exactly when
    counts and lengths happen to line up): every array of 2 and of 3
    fixed-width elements over {12 tags} x {payload filled with one of 11
    bytes}, first element of the given tag."""
    fills = [ord(c) for c in 'bBsuIilLfd'] + [0x01]
    elems = []
    for tag, w in _WIDTH.items():
        for f in fills:
            if tag == 'L' and f & 0x80:
                continue
            if tag == 'T':
                payload = b'\x00\x00\x00\x00' + bytes([f]) * 4
            elif tag == 't':
                payload = bytes([f & 1])
            else:
                payload = bytes([f]) * w
            elems.append(tag.encode() + payload)
    firsts = [e for e in elems if e[:1] == first_tag.encode()]
    wide = first_tag in 'IilLfd'
    for a in firsts:
        for b in elems:
            body = a + b
            check_value(ctx, b'A' + struct.pack('>I', len(body)) + body,
                        'tag-fill array', through_frame=False)
            if not wide or a[1] != 0x01 and a[1:2] != b[:1]:
                continue
            for c in elems:
                body = a + b + c
                check_value(ctx, b'A' + struct.pack('>I', len(body)) + body,
                            'tag-fill array', through_frame=False)


def run_l_reading(ctx, part):
    """Tag 'L' with the top bit set.  The specification reads it unsigned,
    the library documents a signed reading, so neither value is demanded -
    but the decoder must take ONE reading everywhere: at top level, as a table
    value, nested, and as the k-th of n array elements for every n of a dense
    range.  The reading is probed once and every other position is held to
    it (a differential oracle that stays silent for either reading)."""
    p = lib.pamqp()
    probe = p.decode.embedded_value(b'L' + b'\xff' * 8)[1]
    if probe not in (-1, 2 ** 64 - 1):
        ctx.violation('L-reading|probe', 'tag L payload ff*8 decoded as %r, '
                      'neither the signed nor the unsigned reading' % (probe,),
                      {'kind': 'L-reading', 'part': part}, '-1 or 2^64-1',
                      repr(probe))
        return
    signed = probe == -1
    pays = [b'\xff' * 8, b'\x80' + b'\x00' * 7, b'\x80' + b'\x00' * 6 +
            b'\x01', b'\xfe' + b'\xce' * 7, b'\xc0\x00\x00\x00\xff\xff\xff'
            b'\xff', b'\x9f' * 8]
    low = [b'\x00' * 8, b'\x7f' + b'\xff' * 7, b'\x00' * 7 + b'\x07']
    counts = list(range(1, 70)) + [100, 127, 128, 255, 256, 400]
    counts = counts[part::4]

    def want_of(q):
        n = int.from_bytes(q, 'big')
        return n - 2 ** 64 if signed and n >= 2 ** 63 else n

    def expect(vb, want, label):
        ctx.case(('L', vb), True, sample=lambda: {
            'value_bytes': vb.hex()[:80], 'label': label,
            'reading': 'signed' if signed else 'unsigned'})
        case = {'kind': 'value-L', 'hex': vb.hex(), 'label': label}
        try:
            consumed, got = p.decode.embedded_value(vb)
        except Exception as exc:  # noqa
            ctx.outcome('rejected')
            ctx.violation('L-reading|' + label, '%s: decode.embedded_value '
                          'rejected a well-formed value: %r (%s)' % (
                              label, exc, vb.hex()[:120]), case, 'accepted',
                          repr(exc))
            return
        ctx.calls()
        ctx.valid()
        if consumed != len(vb) or got != want or \
                lib.canon(got) != lib.canon(want):
            ctx.outcome('mismatch')
            ctx.violation('L-reading|' + label, '%s: tag L is read %s at top '
                          'level (ff*8 -> %d) but here the decoder returned '
                          '%s where that reading gives %s (%s)' % (
                              label, 'signed' if signed else 'unsigned',
                              probe, short(got, 120), short(want, 120),
                              vb.hex()[:120]), case, short(want), short(got))
        else:
            ctx.outcome('ok')

    for q in pays:
        w = want_of(q)
        if part == 0:
            expect(b'L' + q, w, 'L top level')
            t = raw_table([('k', b'L' + q), ('j', b'L' + low[1])])
            expect(b'F' + t, {'k': w, 'j': want_of(low[1])}, 'L table value')
            t2 = raw_table([('n', b'F' + t)])
            expect(b'F' + t2, {'n': {'k': w, 'j': want_of(low[1])}},
                   'L nested table value')
        for n in counts:
            # all n elements with the top bit set
            body = (b'L' + q) * n
            expect(b'A' + struct.pack('>I', len(body)) + body, [w] * n,
                   'array of %d x L (top bit set)' % n)
            # one such element first / middle / last among small ones
            for pos in sorted({0, n // 2, n - 1}):
                items = [b'L' + low[i % 3] for i in range(n)]
                wants = [want_of(low[i % 3]) for i in range(n)]
                items[pos] = b'L' + q
                wants[pos] = w
                body = b''.join(items)
                expect(b'A' + struct.pack('>I', len(body)) + body, wants,
                       'array of %d x L, top bit set at %d' % (n, pos))
            if n in (1, 16, 17, 64, 400):
                body = (b'L' + q) * n
                arr = b'A' + struct.pack('>I', len(body)) + body
                t = raw_table([('a', arr)])
                expect(b'F' + t, {'a': [w] * n},
                       'array of %d x L inside a table' % n)


def replay(case, ctx):
    if case['kind'] == 'codepoints':
        run_codepoints(ctx, case['lo'], case['hi'])
        return
    if case['kind'] == 'value-L':
        for part in range(4):
            run_l_reading(ctx, part)
        return
    data = bytes.fromhex(case['hex'])
    if case['kind'] == 'value':
        check_value(ctx, data, case.get('label', ''), through_frame=True)
    else:
        check_frame(ctx, data, case.get('label', ''))
