"""C02 - content header and Basic.Properties survive encode-then-decode."""
from mc import corpus, lib, refcodec, spec_table
from mc.canon import canon, fromjson, norm, short, tojson

ID = 'C02'
LEVEL = 'model_checking'
RULE = ('E1: all 8192 presence subsets of the 13 settable properties with '
        'representative values; every alternative value of every property x '
        'subsets of the other 12 (quick: sizes 0-2 and 10-12, thorough: all '
        '4096); pairs of alternative values; the empty-string spelling of '
        'unset; body size x channel alphabets; dense interior sweeps (every '
        'priority 0..255, every string-property length 0..255, timestamps at '
        'every 2^k+-1, header tables of 0..199 entries). A case is (property dict, '
        'body size, channel); non-trivial = at least one property set or a '
        'non-zero size/channel.')
BOUNDS = {
    'quick': {'presence_subsets': 8192, 'other_subsets_per_alt':
              'sizes 0,1,2,10,11,12', 'pairs': 'first 4 values each'},
    'thorough': {'presence_subsets': 8192, 'other_subsets_per_alt': 4096,
                 'pairs': 'all values'},
}
ASSUMPTIONS = ['values outside the per-property alphabets '
               '(mc.corpus.prop_value_domain) are represented by boundary '
               'values only']


def tasks(tier, seed):
    return corpus.header_tasks(tier)


def check_one(ctx, props, body_size, channel):
    p = lib.pamqp()
    case = corpus.case_mark({'props': tojson(props), 'body_size': body_size,
                             'channel': channel})
    fp = 'header|{}|{}|{}'.format(body_size, channel, short(props, 400))
    try:
        obj = corpus.construct_header(props, body_size)
        data = p.frame.marshal(obj, channel)
        ctx.calls(2)
    except Exception as exc:  # noqa
        ctx.outcome('encode-raised')
        ctx.violation(fp, 'content header with valid properties {} size {} '
                      'refused: {!r}'.format(short(props, 300), body_size,
                                             exc), case, 'accepted',
                      repr(exc))
        return
    try:
        consumed, ch, out = p.frame.unmarshal(data)
        ctx.calls()
    except Exception as exc:  # noqa
        ctx.outcome('decode-raised')
        ctx.violation(fp, 'decoding the encoded header raised {!r} '
                      '(properties {})'.format(exc, short(props, 300)),
                      case, 'decoded', repr(exc))
        return
    bad = []
    if consumed != len(data):
        bad.append('consumed {} != {}'.format(consumed, len(data)))
    if ch != channel:
        bad.append('channel {} != {}'.format(ch, channel))
    if lib.kind_of(out) != 'header':
        bad.append('decoded a {}'.format(lib.kind_of(out)))
    else:
        if out.body_size != body_size:
            bad.append('body_size {} != {}'.format(out.body_size, body_size))
        if out.class_id != 60:
            bad.append('class_id {} != 60'.format(out.class_id))
        got_props = out.properties
        if type(got_props) is not p.commands.Basic.Properties:
            bad.append('properties object is a {}'.format(
                type(got_props).__name__))
        for name, _t, _b in spec_table.PROPERTIES:
            got = getattr(got_props, name, 'MISSING')
            v = props.get(name)
            if refcodec.is_set(v):
                if canon(norm(v)) != canon(got):
                    bad.append('{}: got {} want {}'.format(
                        name, short(got), short(norm(v))))
            elif name == 'cluster_id':
                if got != '':
                    bad.append('cluster_id {} != empty'.format(short(got)))
            elif got is not None:
                bad.append('{} should be unset, got {}'.format(name,
                                                               short(got)))
        try:
            again = p.frame.marshal(out, ch)
            ctx.calls()
            if again != data:
                bad.append('re-encoding the decoded header differs: {} vs '
                           '{}'.format(again.hex()[:80], data.hex()[:80]))
        except Exception as exc:  # noqa
            bad.append('re-encoding the decoded header raised {!r}'.format(
                exc))
        # property-set equality through the public ==
        try:
            if not (got_props == obj.properties):
                # == compares raw attribute values; only flag when the
                # normalised input equals itself (no timestamp/float forms)
                if all(canon(norm(v)) == canon(v) and v != ''
                       for v in props.values()):
                    bad.append('decoded properties != original (==)')
        except Exception as exc:  # noqa
            bad.append('properties == raised {!r}'.format(exc))
    ctx.valid()
    if bad:
        ctx.outcome('mismatch')
        ctx.violation(fp, 'header props={} size={} ch={}: {}'.format(
            short(props, 300), body_size, channel, '; '.join(bad)[:500]),
            case, 'round trip equal', bad[:6])
    else:
        ctx.outcome('ok')


def run(task, ctx):
    for props, size, channel in corpus.header_cases(task, ctx.tier, ctx.seed):
        key = (canon(props), size, channel)
        trivial = not props and size == 0 and channel == 0
        ctx.case(key, not trivial, sample=lambda: {
            'props': short(props, 200), 'body_size': size,
            'channel': channel})
        if ctx.evaluations % 29 == 0:
            corpus.disturb()     # explore from a non-initial state too
            corpus.DISTURBED = True
            ctx.count('disturbed')
        check_one(ctx, props, size, channel)


def replay(case, ctx):
    corpus.replay_prepare(case)
    check_one(ctx, fromjson(case['props']), case['body_size'],
              case['channel'])
