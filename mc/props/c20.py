"""C20 - header peek reports the type, channel and size the decoder will use."""
import itertools
import struct

from mc import alphabets as A
from mc import corpus, frames, lib, refcodec
from mc.canon import short

ID = 'C20'
LEVEL = 'model_checking'
RULE = ('E1/E4: every byte string of length 0..6 over a 6-symbol alphabet '
        'and every single byte value at every position (must give (0, 0, '
        'None)); 7-byte headers: full product of 00 01 7f 80 ff at all 7 '
        'positions (78125) and every byte 0..255 at each position against 5 '
        'fills, each followed by 0, 1 and 9 trailing bytes; second clause on '
        'every frame the *library* encodes over the corpus (method '
        'products, C02 headers, bodies incl. the empty one, heartbeats): '
        'peeked size + 8 == length and the client procedure read 7 / peek / '
        'read size+1 / decode consumes the buffer completely on the peeked '
        'channel. A case is one buffer or one encoded frame; non-trivial = '
        'not the all-zero buffer / not the default frame.'
        ' '
        'Also: every buffer spelled with A M Q P letters in its first '
        'seven bytes (8 heads x 8^k continuations x 5 trails) and '
        'real protocol headers; representative frames again with '
        'debug logging on and in -bb / -OO -bb child interpreters.')
BOUNDS = {'quick': {'header_bytes': '5^7 product + 7x256x5', 'frames':
                    '<=2-deviation method vectors + C02-quick headers'},
          'thorough': {'header_bytes': '5^7 product + 7x256x5', 'frames':
                       'full method products + C02-thorough headers'}}
ASSUMPTIONS = ['frames of the second clause are encoded by the library '
               'itself (the statement is about what the encoder produces)']

SYMS = b'\x00\x01\x7f\x80\xff'
TRAILS = [b'', b'\xce', b'\x00\x01\x02\x03\x04\x05\x06\x07\x08']
SELFTEST_TASK = ('short',)


def tasks(tier, seed):
    out = [('short',), ('bytes',), ('amqp',)]
    out += [('product', i) for i in range(len(SYMS))]
    out += [('frames',) + tuple(t) for t in frames.frame_tasks(tier)]
    # the representative frames once more with debug logging switched on
    # (process environment: the procedure must work in it all the same)
    out += [('debug-logging', 'frames', 'rep'),
            ('debug-logging', 'frames', 'misc')]
    return out


def env_tasks(tier, seed):
    """What is repeated in interpreters started with other flags."""
    return [('frames', 'rep'), ('frames', 'misc'),
            ('debug-logging', 'frames', 'rep'),
            ('debug-logging', 'frames', 'misc'), ('short',)]


def peek(ctx, buf, case_label):
    p = lib.pamqp()
    try:
        got = p.frame.frame_parts(buf)
        ctx.calls()
    except Exception as exc:  # noqa
        ctx.outcome('raised')
        ctx.violation('peek|' + buf.hex()[:200], 'frame_parts({}) raised '
                      '{!r}'.format(buf.hex()[:60], exc),
                      {'kind': 'peek', 'hex': buf.hex()}, 'a triple',
                      repr(exc))
        return None
    ctx.valid()
    if len(buf) < 7:
        want = (0, 0, None)
    else:
        want = (buf[0], (buf[1] << 8) | buf[2],
                (buf[3] << 24) | (buf[4] << 16) | (buf[5] << 8) | buf[6])
    if tuple(got) != want or (len(buf) >= 7 and
                              [type(x) for x in got] != [int, int, int]):
        ctx.outcome('mismatch')
        ctx.violation('peek|' + buf.hex()[:200], 'frame_parts({}) = {!r}, the '
                      'header says {!r}'.format(buf.hex()[:60], got, want),
                      {'kind': 'peek', 'hex': buf.hex()}, repr(want),
                      repr(got))
        return None
    ctx.outcome('ok')
    return got


def client_procedure(ctx, label, data, channel, build):
    """read 7, peek, read size + 1, decode."""
    p = lib.pamqp()
    case = {'kind': 'frame', 'build': build, 'label': label}
    head = data[:7]
    parts = peek(ctx, head, label)
    if parts is None:
        return
    ftype, ch, size = parts
    bad = []
    if size + 8 != len(data):
        bad.append('peeked size {} + 8 != frame length {}'.format(size,
                                                                  len(data)))
    if ch != channel:
        bad.append('peeked channel {} != {}'.format(ch, channel))
    buf = head + data[7:7 + size + 1]
    out = lib.unmarshal_outcome(buf)
    ctx.calls()
    if out[0] != 'ok':
        bad.append('decoder refused header + size+1 bytes: {!r}'.format(
            out[1]))
    else:
        if out[1] != len(buf):
            bad.append('decoder consumed {} of {}'.format(out[1], len(buf)))
        if out[2] != ch:
            bad.append('decoded channel {} != peeked {}'.format(out[2], ch))
        want_kind = {1: 'method', 2: 'header', 3: 'body', 8: 'heartbeat'}.get(
            ftype)
        if lib.kind_of(out[3]) != want_kind:
            bad.append('decoded a {} from type octet {}'.format(
                lib.kind_of(out[3]), ftype))
    if bad:
        ctx.outcome('procedure-broken')
        ctx.violation('procedure|' + (data.hex() if len(data) < 200 else
                                      label + data[:100].hex()),
                      '{}: {} ({})'.format(label, '; '.join(bad),
                                           data.hex()[:100]), case,
                      'buffer accepted and consumed completely', bad)
    else:
        ctx.outcome('procedure-ok')


def lib_frames(task, tier, seed):
    """Frames encoded by the library over the corpus of `task`."""
    p = lib.pamqp()
    kind = task[0]
    if kind in ('m', 'm2'):
        from mc import spec_table
        if kind == 'm':
            it = ((m, vec, ch) for m, vec, ch, _i in
                  corpus.method_cases(task[1:], 'quick', seed))
        else:
            m = spec_table.BY_NAME[task[1]]
            it = ((m, vec, A.CHANNEL[(i + seed) % 7])
                  for i, vec in enumerate(corpus.dev_vectors(m, 2)))
        for m, vec, ch in it:
            try:
                data = p.frame.marshal(corpus.construct(m, vec), ch)
            except Exception:  # noqa  (C01 reports refusals)
                continue
            yield ('%s%r' % (m.name, vec))[:100], data, ch, {
                'type': 'method', 'method': m.name,
                'vec': __import__('mc.canon').canon.tojson(list(vec)),
                'channel': ch}
    elif kind == 'h':
        from mc.canon import tojson
        for props, size, ch in corpus.header_cases(task[1:], tier, seed):
            try:
                data = p.frame.marshal(corpus.construct_header(props, size),
                                       ch)
            except Exception:  # noqa
                continue
            yield 'header %s' % short(props, 80), data, ch, {
                'type': 'header', 'props': tojson(props), 'size': size,
                'channel': ch}
    elif kind in ('rep', 'misc'):
        bodies = [b'', b'\x00', b'\xce', b'AMQP', refcodec.HEARTBEAT,
                  b'\x01\x00\x01\x00\x00\x00\x04', bytes(range(256)),
                  b'a' * 4088, b'x' * 131064, b'x' * 131065,
                  b'y' * 131073, b'z' * 300000]
        if kind == 'misc':
            for b in bodies:
                for ch in A.CHANNEL:
                    yield ('body len %d' % len(b),
                           p.frame.marshal(p.body.ContentBody(b), ch), ch,
                           {'type': 'body', 'hex': b.hex() if len(b) < 300
                            else None, 'len': len(b), 'channel': ch})
            yield ('heartbeat', p.frame.marshal(p.heartbeat.Heartbeat(), 0),
                   0, {'type': 'heartbeat'})


def run(task, ctx):
    kind = task[0]
    if kind == 'debug-logging':
        with lib.debug_logging():
            run(task[1:] + ('[debug logging on]',), ctx)
    elif kind == 'short':
        alpha = b'\x00\x01\x08\xce\xffA'
        for n in range(0, 7):
            for tup in itertools.product(alpha, repeat=n):
                buf = bytes(tup)
                ctx.case(buf, any(buf), sample=lambda: {'buffer': buf.hex()})
                peek(ctx, buf, 'short')
        for n in range(1, 7):
            for pos in range(n):
                for v in range(256):
                    buf = bytes(n - 1)[:pos] + bytes([v]) + bytes(n - 1)[pos:]
                    ctx.case(buf, v != 0)
                    peek(ctx, buf, 'short')
    elif kind == 'amqp':
        # buffers that start like a protocol header are buffers like any
        # other to the peek: the first seven bytes, whatever they spell
        alpha = b'\x00\x01\x09\xceAMQP'
        for head in (b'AMQP', b'AMQ', b'AM', b'A', b'amqp', b'PQMA',
                     b'\x01AMQ', b'AMQ\x00'):
            for rest in itertools.product(alpha, repeat=7 - len(head)):
                for t in TRAILS + [b'\x01', b'\x00\x09\x01']:
                    buf = head + bytes(rest) + t
                    ctx.case(buf, True, sample=lambda: {'buffer': buf.hex()})
                    peek(ctx, buf, 'amqp')
        for major in (0, 1, 9, 255):
            for minor in (0, 9, 10, 255):
                for rev in (0, 1, 255):
                    buf = refcodec.enc_protocol_header(major, minor, rev)
                    for b in (buf, buf[:7], buf + buf, bytearray(buf)):
                        ctx.case(bytes(b), True)
                        peek(ctx, b, 'amqp')
    elif kind == 'bytes':
        for fill in SYMS:
            for pos in range(7):
                for v in range(256):
                    head = bytearray([fill] * 7)
                    head[pos] = v
                    for t in TRAILS:
                        buf = bytes(head) + t
                        ctx.case(buf, any(buf),
                                 sample=lambda: {'buffer': buf.hex()})
                        peek(ctx, buf, 'bytes')
    elif kind == 'product':
        first = SYMS[task[1]]
        for rest in itertools.product(SYMS, repeat=6):
            head = bytes((first,) + rest)
            for t in TRAILS:
                buf = head + t
                ctx.case(buf, any(buf), sample=lambda: {'buffer': buf.hex()})
                peek(ctx, buf, 'product')
    else:
        env = ''
        if task[-1] == '[debug logging on]':
            env, task = ' ' + task[-1], task[:-1]
        for label, data, ch, build in lib_frames(task[1:], ctx.tier,
                                                 ctx.seed):
            label += env
            ctx.case((data, env), True, sample=lambda: {'frame': label,
                                                        'len': len(data)})
            client_procedure(ctx, label, data, ch, build)


def replay(case, ctx):
    p = lib.pamqp()
    if case['kind'] == 'peek':
        peek(ctx, bytes.fromhex(case['hex']), 'replay')
        return
    from mc import spec_table
    from mc.canon import fromjson
    b = case['build']
    if b['type'] == 'method':
        m = spec_table.BY_NAME[b['method']]
        data = p.frame.marshal(corpus.construct(m, tuple(fromjson(b['vec']))),
                               b['channel'])
        ch = b['channel']
    elif b['type'] == 'header':
        data = p.frame.marshal(corpus.construct_header(
            fromjson(b['props']), b['size']), b['channel'])
        ch = b['channel']
    elif b['type'] == 'body':
        body = bytes.fromhex(b['hex']) if b.get('hex') is not None else \
            b'x' * b['len']
        data = p.frame.marshal(p.body.ContentBody(body), b['channel'])
        ch = b['channel']
    else:
        data, ch = p.frame.marshal(p.heartbeat.Heartbeat(), 0), 0
    if '[debug logging on]' in case.get('label', ''):
        with lib.debug_logging():
            client_procedure(ctx, case.get('label', ''), data, ch, b)
        return
    client_procedure(ctx, case.get('label', ''), data, ch, b)
