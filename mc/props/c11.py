"""C11 - table integers use the smallest fitting type; legacy mode restricts
the types."""
import itertools
import random
import struct

from mc import lib, refcodec, spec_table
from mc.canon import short

ID = 'C11'
LEVEL = 'model_checking'
RULE = ('E2 state machine + E1: the state is the legacy switch, observed '
        'behaviourally (tags emitted for the probes 40000 and 3000000000); '
        'events support_deprecated_rabbitmq(), (True), (False) and three '
        'calls that must leave the state alone (an encode refused part-way, '
        'a failed decode, a successful encode); BFS over events with state '
        'deduplication plus all 6^4 (thorough 6^6) event sequences without '
        'deduplication under three observation modes (observe at the end '
        'only / probe after every event / re-encode the same frame objects '
        'after every event), each transition compared with the 2-state '
        'model. In each state the full observation: every integer of '
        '[-70000, 70000], every n within 2 (thorough 4096) of +-2^7 .. '
        '+-2^64, all +-2^k+-1 for k <= 70, integers of up to 10000 digits and '
        'seeded 64-bit integers, at '
        'four positions (table_integer, top-level value, array element, '
        'table inside an array): emitted bytes equal the reference ladder '
        'for that state, only b s I l tags appear anywhere in legacy output, '
        'the accepted set is exactly [-2^63, 2^63-1], refusals are '
        'TypeError; arrays of every length 0..69, 100, 255, 256, 400 of one / '
        'two alternating / all ladder integers equal the reference ladder; '
        'fixed-width encoders refuse limit+-1, +-2 with '
        'TypeError; IntEnum members and int subclass instances (fresh classes '
        'per sequence of <= 4 switch settings) follow the ladder of the '
        'current setting; one continuous history with N never-seen integers '
        'between probe and toggle for every N of a dense range. A case is (state, integer, position) or a transition; '
        'non-trivial = integer outside [-128, 127] or a transition.'
        ' '
        'Also: integer-like objects (__index__, not int) through '
        'every switch sequence, and int subclasses / integer-likes '
        'through the fixed-width encoders (refused, or held to what '
        'the int is held to).')
BOUNDS = {'quick': {'dense_range': '[-70000, 70000]', 'boundary_radius': 2,
                    'toggle_sequences': '6 events ^ 4 x 3 observation modes'},
          'thorough': {'dense_range': '[-70000, 70000]',
                       'boundary_radius': 4096,
                       'toggle_sequences': '6 events ^ 6 x 3 observation '
                       'modes'}}
ASSUMPTIONS = ['the ladder order b s u I i l (legacy b s I l) is the '
               'documented one; integers between the dense range and the '
               'boundary neighbourhoods are represented by seeded samples']

BOUNDARIES = [2**7, 2**8, 2**15, 2**16, 2**31, 2**32, 2**63, 2**64]
# the three toggles, and three calls that must NOT change the ladder in
# use: an encode refused part-way, a failed decode, a successful encode
EVENTS = ['()', '(True)', '(False)', 'refused-encode', 'failed-decode',
          'encode']
SELFTEST_TASK = ('toggle',)


def tasks(tier, seed):
    out = [('toggle',), ('fixed',), ('fixed', 'wrapped'), ('subclasses',),
           ('generations',)]
    for legacy in (False, True):
        for lo in range(-70000, 70001, 10000):
            out.append(('dense', legacy, lo, min(70001, lo + 10000)))
        for b in BOUNDARIES:
            out.append(('bounds', legacy, b))
        out.append(('powers', legacy))
        out.append(('arrays', legacy))
    return out


HUGE = [s_ * v for s_ in (1, -1) for v in (
    2**100, 2**128 + 1, 2**1000, 2**14000, 2**20000 - 1, 10**100, 10**4299,
    10**4300, 10**4301, 10**5000, 10**10000)]


def sn(n):
    """An integer for messages / samples / JSON: itself, or a short
    description when it is too long to print (str() of an int of more than
    4300 digits raises ValueError in CPython >= 3.11)."""
    if abs(n) < 2**80:
        return n
    return '%s(int of %d bits, %s...)' % ('-' if n < 0 else '',
                                          n.bit_length(), hex(abs(n))[:12])


def jn(n):
    return n if abs(n) < 2**80 else {'$hex': hex(n)}


def unjn(j):
    return int(j['$hex'], 16) if isinstance(j, dict) else j


def set_switch(legacy):
    lib.pamqp().encode.support_deprecated_rabbitmq(legacy)


def fingerprint():
    """Behavioural state: tags for the two probes."""
    e = lib.pamqp().encode
    return (e.encode_table_value(40000)[:1], e.encode_table_value(
        3000000000)[:1])


MODEL_FP = {False: (b'u', b'i'), True: (b'I', b'l')}


def apply_event(ev):
    e = lib.pamqp().encode
    if ev == '()':
        e.support_deprecated_rabbitmq()
    elif ev == '(True)':
        e.support_deprecated_rabbitmq(True)
    elif ev == '(False)':
        e.support_deprecated_rabbitmq(False)
    elif ev == 'refused-encode':
        p = lib.pamqp()
        for bad in (lambda: p.frame.marshal(p.header.ContentHeader(
                        0, 1, p.commands.Basic.Properties(
                            app_id='a', headers={'a': 40000, 'k': 2**64})), 1),
                    lambda: e.by_type({'k': object}, 'table'),
                    lambda: p.frame.marshal(p.commands.Queue.Declare(
                        queue='q', arguments={'z': [1, 2**70]}), 1)):
            try:
                bad()
                raise AssertionError('refused encode was accepted')
            except (TypeError, ValueError, OverflowError):
                pass
    elif ev == 'failed-decode':
        p = lib.pamqp()
        try:
            p.frame.unmarshal(b'\x01\x00\x01\x00\x00\x00\x0a\x00\x32\x00'
                              b'\x0a\x00\x00\x01q\x00\xff\xce')
        except p.exceptions.UnmarshalingException:
            pass
    else:
        p = lib.pamqp()
        p.frame.marshal(p.commands.Basic.Ack(delivery_tag=5), 1)
        e.by_type({'n': 1}, 'table')


def model_next(state, ev):
    if ev in ('()', '(True)'):
        return True
    if ev == '(False)':
        return False
    return state


def walk_tags(data):
    """All type tags in an encoded table value (reference walker)."""
    tags = []

    def value(r):
        tag = r.take(1)
        tags.append(tag)
        if tag == b'F':
            length = r.u('>I', 4)
            end = r.pos + length
            while r.pos < end:
                r.take(r.u('>B', 1))
                value(r)
        elif tag == b'A':
            length = r.u('>I', 4)
            end = r.pos + length
            while r.pos < end:
                value(r)
        elif tag in (b'b', b'B', b't'):
            r.take(1)
        elif tag in (b's', b'u'):
            r.take(2)
        elif tag in (b'I', b'i', b'f'):
            r.take(4)
        elif tag in (b'l', b'L', b'd', b'T'):
            r.take(8)
        elif tag == b'D':
            r.take(5)
        elif tag in (b'S', b'x'):
            r.take(r.u('>I', 4))
        elif tag in (b'V', b'\x00'):
            pass
        else:
            raise refcodec.RefError('tag %r' % tag)
    r = refcodec.R(data)
    value(r)
    if r.pos != len(data):
        raise refcodec.RefError('trailing bytes')
    return tags


def observe_int(ctx, legacy, n):
    e = lib.pamqp().encode
    in_range = -2**63 <= n <= 2**63 - 1
    positions = [
        ('table_integer', e.table_integer, n,
         lambda: refcodec.enc_value(n, legacy)),
        ('value', e.encode_table_value, n,
         lambda: refcodec.enc_value(n, legacy)),
        ('array', e.field_array, [n],
         lambda: refcodec.enc_array([n], legacy)),
        ('table-in-array', e.field_array, [{'k': n}, [n]],
         lambda: refcodec.enc_array([{'k': n}, [n]], legacy)),
    ]
    for pos, func, arg, ref in positions:
        ctx.case((legacy, n, pos), not -128 <= n <= 127,
                 sample=lambda: {'legacy': legacy, 'n': sn(n),
                                 'position': pos})
        case = {'kind': 'int', 'legacy': legacy, 'n': jn(n), 'position': pos}
        fp = 'ladder|{}|{}|{}'.format(legacy, sn(n), pos)
        n_ = sn(n)
        try:
            got = func(arg)
            ctx.calls()
        except TypeError:
            ctx.calls()
            if in_range:
                ctx.outcome('refused-in-range')
                ctx.violation(fp, 'legacy={} {}({}) refused an integer of '
                              '[-2^63, 2^63-1]'.format(legacy, pos, n_), case,
                              'encoded', 'TypeError')
            else:
                ctx.outcome('refused-out-of-range')
            ctx.valid()
            continue
        except Exception as exc:  # noqa
            ctx.calls()
            ctx.outcome('raised-' + type(exc).__name__)
            ctx.violation(fp, 'legacy={} {}({}) raised {} instead of {}'
                          .format(legacy, pos, n_, type(exc).__name__,
                                  'encoding' if in_range else 'TypeError'),
                          case, 'encoded' if in_range else 'TypeError',
                          repr(exc))
            ctx.valid()
            continue
        ctx.valid()
        if not in_range:
            ctx.outcome('accepted-out-of-range')
            ctx.violation(fp, 'legacy={} {}({}) accepted an integer outside '
                          '[-2^63, 2^63-1]: {}'.format(legacy, pos, n_,
                                                       got.hex()[:80]), case,
                          'TypeError', got.hex())
            continue
        want = ref()
        if got != want:
            ctx.outcome('wrong-type')
            ctx.violation(fp, 'legacy={} {}({}) = {} but the ladder gives {} '
                          '(tag {!r} instead of {!r})'.format(
                              legacy, pos, n_, got.hex(), want.hex(),
                              got[:1], want[:1]), case, want.hex(),
                          got.hex())
            continue
        if legacy:
            try:
                src = got if pos in ('table_integer', 'value') else \
                    b'A' + got
                tags = set(walk_tags(src)) - {b'A', b'F'}
            except refcodec.RefError:
                tags = {b'?'}
            if not tags <= {b'b', b's', b'I', b'l'}:
                ctx.violation(fp, 'legacy output for {} contains tags {}'
                              .format(n_, sorted(tags)), case, 'b s I l',
                              sorted(tags))
                continue
        ctx.outcome('ok')


ARRAY_INTS = [5, -5, 300, -300, 40000, 65535, 32768, 100000, -100000,
              2**31 - 1, -2**31, 3000000000, 2**32 - 1, 2**31, 2**40, -2**40,
              2**63 - 1, -2**63]
ARRAY_COUNTS = list(range(0, 70)) + [100, 255, 256, 400]


def observe_arrays(ctx, legacy):
    """Long arrays (every count of a dense range) of one integer, of two
    alternating integers, and of the whole ladder: the bytes must equal the
    reference ladder for this switch state."""
    e = lib.pamqp().encode
    shapes = []
    for n in ARRAY_COUNTS:
        for v in ARRAY_INTS:
            shapes.append([v] * n)
        shapes.append([ARRAY_INTS[i % len(ARRAY_INTS)] for i in range(n)])
        shapes.append([40000 if i % 2 else -7 for i in range(n)])
        shapes.append([3000000000 if i % 3 else 2**40 for i in range(n)])
    for arr in shapes:
        for pos, build in (('array', lambda a: a),
                           ('array in table in array',
                            lambda a: [{'k': a}, a])):
            value = build(arr)
            ctx.case((legacy, 'arr', pos, len(arr), tuple(arr[:3])), True,
                     sample=lambda: {'legacy': legacy, 'array_len': len(arr),
                                     'first': arr[:3], 'position': pos})
            try:
                got = e.field_array(value)
                ctx.calls()
            except Exception as exc:  # noqa
                got = repr(exc).encode()
            ctx.valid()
            want = refcodec.enc_array(value, legacy)
            if got != want:
                ctx.outcome('wrong-type')
                tags = '?'
                try:
                    tags = sorted(set(walk_tags(b'A' + got)) - {b'A', b'F'})
                except Exception:  # noqa
                    pass
                ctx.violation(
                    'ladder-array|{}|{}|{}|{}'.format(legacy, pos, len(arr),
                                                      arr[:2]),
                    'legacy={} {} of {} integers ({}...): bytes differ from '
                    'the reference ladder (tags emitted: {})'.format(
                        legacy, pos, len(arr), arr[:3], tags),
                    {'kind': 'array', 'legacy': legacy},
                    want.hex()[:200], got.hex()[:200])
            else:
                ctx.outcome('ok')


SWITCH_ARGUMENTS = [True, False, 1, 0, None, '1', 'yes', 'false', '', 2, -1,
                    0.0, 1.5, [1], [], (), (0,), {}, {'a': 1}, b'', b'0',
                    object(), float('nan')]


def check_switch_arguments(ctx):
    """The switch is documented as a bool and implemented as a truth value:
    whatever it is called with, afterwards the ladder in force is the legacy
    one exactly when the argument was true; a call that is refused leaves the
    ladder as it was."""
    e = lib.pamqp().encode
    probes = [40000, 3000000000, -129, 65535]
    for before in (False, True):
        for no, arg in enumerate(SWITCH_ARGUMENTS):
            set_switch(before)
            label = 'support_deprecated_rabbitmq(%s) after %s' % (
                short(arg, 30), before)
            ctx.case(('switch-arg', before, no), True,
                     sample={'call': label})
            ctx.valid()
            try:
                e.support_deprecated_rabbitmq(arg)
                expected = bool(arg)
                ctx.calls()
            except Exception:  # noqa
                expected = before
            bad = None
            for n in probes:
                for func, wrap, ref in (
                        (e.table_integer, lambda v: v,
                         lambda v: refcodec.enc_value(v, expected)),
                        (e.field_table, lambda v: {'k': [v]},
                         lambda v: refcodec.enc_table({'k': [v]}, expected))):
                    try:
                        got = func(wrap(n))
                    except Exception as exc:  # noqa
                        got = repr(exc).encode()
                    if got != ref(n):
                        bad = (n, got, ref(n))
            if bad:
                ctx.outcome('wrong-ladder')
                ctx.violation('switch-arg|{}|{}'.format(before, no),
                              '{}: {} is then encoded as {} but the ladder '
                              'for legacy={} gives {}'.format(
                                  label, bad[0], bad[1].hex()[:40], expected,
                                  bad[2].hex()[:40]),
                              {'kind': 'switch-arguments'}, bad[2].hex(),
                              bad[1].hex())
            else:
                ctx.outcome('ok')
    set_switch(False)


def check_fixed_wrapped(ctx):
    """The fixed-width encoders given an int SUBCLASS instance or an object
    that is merely usable as an integer (__index__): it may be refused
    (TypeError, like every wrong type), and if it is accepted it is held to
    what the plain int is held to - out of range is a TypeError, in range is
    that integer's bytes."""
    e = lib.pamqp().encode
    Mine = type('Mine', (int,), {})
    Like = type('Like', (object,), {
        '__init__': lambda self, n: setattr(self, 'n', n),
        '__index__': lambda self: self.n, '__int__': lambda self: self.n,
        '__repr__': lambda self: 'Like(%d)' % self.n})
    for name, lo, hi, fmt in FIXED:
        func = getattr(e, name)
        for n in sorted({lo - 1, lo, lo + 1, -1, 0, 1, hi - 1, hi, hi + 1,
                         2 * hi + 1, 2 * hi + 2, -2**64, 2**64}):
            for label, wrap in (('int subclass', Mine),
                                ('integer-like object', Like)):
                ctx.case(('fixed', name, n, label), True,
                         sample={'encoder': name, 'n': sn(n), 'as': label})
                case = {'kind': 'fixed-wrapped'}
                fp = 'fixed|{}|{}|{}'.format(name, sn(n), label)
                ctx.valid()
                try:
                    got = func(wrap(n))
                    ctx.calls()
                except TypeError:
                    ctx.outcome('refused')
                    continue
                except Exception as exc:  # noqa
                    ctx.violation(fp, '{}({} {}) raised {} instead of '
                                  'TypeError'.format(name, label, sn(n),
                                                     type(exc).__name__),
                                  case, 'TypeError', repr(exc))
                    continue
                if not lo <= n <= hi:
                    ctx.violation(fp, '{}({} {}) accepted an out-of-range '
                                  'value: {}'.format(name, label, sn(n),
                                                     got.hex()), case,
                                  'TypeError', got.hex())
                elif got != struct.pack(fmt, n):
                    ctx.violation(fp, '{}({} {}) = {}'.format(
                        name, label, sn(n), got.hex()), case,
                        struct.pack(fmt, n).hex(), got.hex())
                else:
                    ctx.outcome('ok')


def ints_for(task, tier, seed):
    kind = task[0]
    if kind == 'dense':
        return range(task[2], task[3])
    if kind == 'bounds':
        radius = 4096 if tier == 'thorough' else 2
        b = task[2]
        return itertools.chain(range(b - radius, b + radius + 1),
                               range(-b - radius, -b + radius + 1))
    out = []
    for k in range(0, 71):
        for s in (1, -1):
            for d in (-1, 0, 1):
                out.append(s * 2**k + d)
    rnd = random.Random(seed)
    out += [rnd.randint(-2**63, 2**63 - 1) for _ in range(2000)]
    out += [rnd.randint(-2**70, 2**70) for _ in range(200)]
    out += HUGE
    return out


def check_toggle(ctx):
    e = lib.pamqp().encode
    depth = 6 if ctx.tier == 'thorough' else 4
    set_switch(False)
    # BFS with deduplication over behavioural states
    start = fingerprint()
    seen = {start: False}
    frontier = [((), False)]
    while frontier:
        hist, mstate = frontier.pop(0)
        for ev in EVENTS:
            set_switch(False)
            for h in hist:
                apply_event(h)
            apply_event(ev)
            ctx.calls(len(hist) + 2)
            fp = fingerprint()
            mnext = model_next(mstate, ev)
            ctx.case(('bfs', hist, ev), True, sample=lambda: {
                'history': list(hist), 'event': ev, 'state': repr(fp)})
            ctx.valid()
            if fp != MODEL_FP[mnext]:
                ctx.violation('toggle|bfs|{}|{}'.format(hist, ev),
                              'after {} + {} the encoder behaves as {} but '
                              'the model says legacy={}'.format(
                                  list(hist), ev, fp, mnext),
                              {'kind': 'toggle', 'seq': list(hist) + [ev]},
                              repr(MODEL_FP[mnext]), repr(fp))
            else:
                ctx.outcome('ok')
            if fp not in seen:
                seen[fp] = mnext
                frontier.append((hist + (ev,), mnext))
    ctx.count('bfs_states', len(seen))
    # all event sequences without deduplication; the SAME frame objects are
    # encoded again after every event (an encoding remembered per object
    # must not survive a toggle)
    p = lib.pamqp()
    table = {'k': [40000, 3000000000, -1], 'n': {'m': 65535}}
    keep_props = p.commands.Basic.Properties(headers=table, app_id='x')
    keep_header = p.header.ContentHeader(0, 1, keep_props)
    keep_method = p.commands.Queue.Declare(queue='q', arguments=table)
    # three observation modes, because observing is itself a call that may
    # disturb (or repair) hidden state: observe only at the end, probe the
    # ladder after every event, re-encode the kept objects after every event
    for seq, mode in itertools.product(
            itertools.product(EVENTS, repeat=depth),
            ('end', 'probe', 'objects')):
        set_switch(False)
        mstate = False
        p.frame.marshal(keep_header, 1), p.frame.marshal(keep_method, 1)
        for i, ev in enumerate(seq):
            apply_event(ev)
            mstate = model_next(mstate, ev)
            ctx.calls()
            last = i == len(seq) - 1
            if mode == 'end' and not last:
                continue
            for label, obj, want in () if mode == 'probe' or (
                    mode == 'end' and fingerprint() != MODEL_FP[mstate]) \
                    else (
                    ('ContentHeader', keep_header, refcodec.enc_header_frame(
                        1, {'headers': table, 'app_id': 'x'}, 1, mstate)[0]),
                    ('Queue.Declare', keep_method, refcodec.enc_method_frame(
                        spec_table.BY_NAME['Queue.Declare'],
                        (0, 'q', False, False, False, False, False, table),
                        1, mstate)[0])):
                got = p.frame.marshal(obj, 1)
                if got != want:
                    ctx.violation(
                        'toggle|object|{}|{}'.format(label, seq[:i + 1]),
                        'after {} the same {} object encodes as {} but the '
                        'ladder for legacy={} gives {}'.format(
                            list(seq[:i + 1]), label, got.hex()[-60:],
                            mstate, want.hex()[-60:]),
                        {'kind': 'toggle', 'seq': list(seq[:i + 1])},
                        want.hex()[:300], got.hex()[:300])
            fp = fingerprint()
            if fp != MODEL_FP[mstate]:
                ctx.violation('toggle|seq|{}'.format(seq[:i + 1]),
                              'after {} the encoder behaves as {} but the '
                              'model says legacy={}'.format(
                                  list(seq[:i + 1]), fp, mstate),
                              {'kind': 'toggle', 'seq': list(seq[:i + 1])},
                              repr(MODEL_FP[mstate]), repr(fp))
                break
        else:
            ctx.outcome('ok')
        ctx.case(('seq', seq, mode), True)
        ctx.valid()
        # the boundary observation in the final state
        for b in BOUNDARIES[:6]:
            for n in (b - 1, b, -b, -b - 1):
                want = refcodec.enc_value(n, mstate)
                try:
                    got = e.encode_table_value(n)
                except Exception as exc:  # noqa
                    got = repr(exc).encode()
                if got != want:
                    ctx.violation('toggle|obs|{}|{}'.format(seq, n),
                                  'after {}: {} encodes as {} not {}'.format(
                                      list(seq), n, got.hex(), want.hex()),
                                  {'kind': 'toggle', 'seq': list(seq)},
                                  want.hex(), got.hex())


def check_subclasses(ctx):
    """Integers that are instances of int SUBCLASSES (IntEnum members, a
    plain subclass) and containers that are dict / list subclasses: for
    every sequence of switch settings of length <= 4, with brand-new classes
    per sequence (so that whatever the library remembers per type is cold
    and first filled under the first setting of the sequence), every value is
    encoded after every setting and must follow the ladder of THAT setting.
    A refusal of a subclass instance (any exception) is not judged."""
    import collections
    import enum
    e = lib.pamqp().encode
    values = [40000, 3000000000, 5, -129, 65535, 2**31]
    for length in (1, 2, 3, 4):
        for seq in itertools.product((True, False), repeat=length):
            Enum = enum.IntEnum('Enum', {'M%d' % i: v for i, v in
                                         enumerate(values)})
            Mine = type('Mine', (int,), {})
            Table = type('Table', (collections.OrderedDict,), {})
            Array = type('Array', (list,), {})
            Like = type('Like', (object,), {
                '__init__': lambda self, n: setattr(self, 'n', n),
                '__index__': lambda self: self.n,
                '__int__': lambda self: self.n})
            groups = [('IntEnum member', list(Enum)),
                      ('int subclass', [Mine(v) for v in values]),
                      # not an int at all, but usable as one (a numpy scalar):
                      # refused, or on the ladder like the int it stands for
                      ('integer-like object', [Like(v) for v in values])]
            for step, legacy in enumerate(seq):
                set_switch(legacy)
                for label, members in groups:
                    builds = [('value', e.encode_table_value,
                               lambda v: v, lambda n: refcodec.enc_value(
                                   n, legacy)),
                              ('table_integer', e.table_integer,
                               lambda v: v, lambda n: refcodec.enc_value(
                                   n, legacy)),
                              ('array', e.field_array, lambda v: [v, [v]],
                               lambda n: refcodec.enc_array([n, [n]],
                                                            legacy)),
                              ('table subclass', e.field_table,
                               lambda v: Table(k=v, a=Array([v])),
                               lambda n: refcodec.enc_table(
                                   {'k': n, 'a': [n]}, legacy))]
                    for v in members:
                        for pos, func, wrap, ref in builds:
                            ctx.case(('sub', seq, step, label, int(v), pos),
                                     True, sample=lambda: {
                                         'switch_settings': list(seq[:step +
                                                                     1]),
                                         'value': '%s %d' % (label, int(v)),
                                         'position': pos})
                            try:
                                got = func(wrap(v))
                                ctx.calls()
                            except Exception:  # noqa
                                ctx.outcome('subclass-refused')
                                continue
                            ctx.valid()
                            want = ref(int(v))
                            if got != want:
                                ctx.outcome('wrong-type')
                                ctx.violation(
                                    'ladder-subclass|{}|{}|{}|{}|{}'.format(
                                        seq, step, label, int(v), pos),
                                    'switch set to {} in turn (classes first '
                                    'seen under {}): {} {} at {} encodes as '
                                    '{} but the ladder for legacy={} gives '
                                    '{}'.format(list(seq[:step + 1]), seq[0],
                                                label, int(v), pos,
                                                got.hex()[:60], legacy,
                                                want.hex()[:60]),
                                    {'kind': 'subclasses'}, want.hex()[:200],
                                    got.hex()[:200])
                            else:
                                ctx.outcome('ok')
    set_switch(False)


PROBES = [40000, 65535, 32768, 3000000000, 2**31, 2**32 - 1]


def check_generations(ctx):
    """The N-th call: one long continuous history that contains, for every
    N of a dense range, the pattern  encode the probes; encode N integers
    never seen before; change the switch; encode the probes again  (a memo of
    integer encodings that survives a change of the switch in some older
    generation / after some number of entries shows here).  Every encode in
    the history is compared with the reference ladder of the current
    setting."""
    e = lib.pamqp().encode
    top = 1100 if ctx.tier == 'thorough' else 600
    legacy = False
    set_switch(False)
    filler = 1 << 20
    for n in list(range(0, top)) + [2000, 4096, 5000]:
        for phase in ('probe', 'fill', 'toggle', 'probe', 'probe-array'):
            if phase == 'fill':
                # distinct values on both sides of the ladder rungs
                for k in range(n):
                    v = (filler + k) if k % 2 else 33000 + ((filler + k) %
                                                            32000)
                    got = e.table_integer(v)
                    if got != refcodec.enc_value(v, legacy):
                        ctx.violation('generations|fill|%d|%d' % (n, v),
                                      'history of distinct integers: %d '
                                      'encodes as %s under legacy=%s' % (
                                          v, got.hex(), legacy),
                                      {'kind': 'generations'},
                                      refcodec.enc_value(v, legacy).hex(),
                                      got.hex())
                        return
                filler += n
                ctx.calls(n)
                continue
            if phase == 'toggle':
                legacy = not legacy
                if n % 3 == 0:
                    set_switch(legacy)
                elif legacy:
                    e.support_deprecated_rabbitmq()
                else:
                    e.support_deprecated_rabbitmq(False)
                continue
            ctx.case(('gen', n, phase, legacy), True, sample=lambda: {
                'distinct_integers_between_probe_and_switch': n,
                'legacy': legacy})
            ctx.valid()
            if phase == 'probe':
                got = b''.join(e.table_integer(v) for v in PROBES)
                want = b''.join(refcodec.enc_value(v, legacy)
                                for v in PROBES)
            else:
                got = e.field_array([PROBES, {'k': PROBES[0]}])
                want = refcodec.enc_array([PROBES, {'k': PROBES[0]}], legacy)
            ctx.calls()
            if got != want:
                ctx.outcome('wrong-type')
                ctx.violation('generations|%d|%s' % (n, phase),
                              'probes encoded, then %d integers never seen '
                              'before, then the switch set to %s: the probes '
                              'now encode as %s but the ladder gives %s' % (
                                  n, legacy, got.hex()[:80], want.hex()[:80]),
                              {'kind': 'generations'}, want.hex()[:200],
                              got.hex()[:200])
                set_switch(False)
                return
            ctx.outcome('ok')
    set_switch(False)


FIXED = [('short_int', -2**15, 2**15 - 1, '>h'),
         ('short_uint', 0, 2**16 - 1, '>H'),
         ('long_int', -2**31, 2**31 - 1, '>l'),
         ('long_uint', 0, 2**32 - 1, '>L'),
         ('long_long_int', -2**63, 2**63 - 1, '>q')]


def check_fixed(ctx):
    e = lib.pamqp().encode
    for name, lo, hi, fmt in FIXED:
        func = getattr(e, name)
        for n in sorted({lo - 2, lo - 1, lo, lo + 1, -1, 0, 1, hi - 1, hi,
                         hi + 1, hi + 2, 2 * hi + 1, 2 * hi + 2, -2**64,
                         2**64} | set(HUGE)):
            ctx.case(('fixed', name, n), True, sample={'encoder': name,
                                                       'n': sn(n)})
            case = {'kind': 'fixed', 'name': name, 'n': jn(n)}
            fp = 'fixed|{}|{}'.format(name, sn(n))
            n_ = n
            n = sn(n)
            ctx.valid()
            try:
                got = func(n_)
                ctx.calls()
            except TypeError:
                ctx.calls()
                if lo <= n_ <= hi:
                    ctx.violation(fp, '{}({}) refused an in-range value'
                                  .format(name, n), case, 'encoded',
                                  'TypeError')
                else:
                    ctx.outcome('refused')
                continue
            except Exception as exc:  # noqa
                ctx.violation(fp, '{}({}) raised {} instead of TypeError'
                              .format(name, n, type(exc).__name__), case,
                              'TypeError', repr(exc))
                continue
            if not lo <= n_ <= hi:
                ctx.violation(fp, '{}({}) accepted an out-of-range value: {}'
                              .format(name, n, got.hex()), case, 'TypeError',
                              got.hex())
            elif got != struct.pack(fmt, n):
                ctx.violation(fp, '{}({}) = {}'.format(name, n, got.hex()),
                              case, struct.pack(fmt, n).hex(), got.hex())
            else:
                ctx.outcome('ok')


def run(task, ctx):
    e = lib.pamqp().encode
    try:
        if task[0] == 'toggle':
            check_toggle(ctx)
        elif task[0] == 'subclasses':
            check_subclasses(ctx)
        elif task[0] == 'generations':
            check_generations(ctx)
        elif task[0] == 'fixed' and len(task) > 1:
            check_fixed_wrapped(ctx)
            check_switch_arguments(ctx)
        elif task[0] == 'fixed':
            set_switch(False)
            check_fixed(ctx)
        else:
            legacy = task[1]
            set_switch(legacy)
            if fingerprint() != MODEL_FP[legacy]:
                ctx.violation('switch|{}'.format(legacy),
                              'support_deprecated_rabbitmq({}) did not '
                              'select the expected ladder: {}'.format(
                                  legacy, fingerprint()),
                              {'kind': 'toggle', 'seq': ['(%s)' % legacy]},
                              repr(MODEL_FP[legacy]), repr(fingerprint()))
            if task[0] == 'arrays':
                observe_arrays(ctx, legacy)
            else:
                for n in ints_for(task, ctx.tier, ctx.seed):
                    observe_int(ctx, legacy, n)
    finally:
        e.support_deprecated_rabbitmq(False)


def replay(case, ctx):
    e = lib.pamqp().encode
    try:
        if case['kind'] == 'int':
            set_switch(case['legacy'])
            observe_int(ctx, case['legacy'], unjn(case['n']))
            ctx.violations = [v for v in ctx.violations
                              if v['case'] == case] or ctx.violations
        elif case['kind'] == 'array':
            set_switch(case['legacy'])
            observe_arrays(ctx, case['legacy'])
        elif case['kind'] == 'subclasses':
            check_subclasses(ctx)
        elif case['kind'] == 'generations':
            check_generations(ctx)
        elif case['kind'] == 'fixed-wrapped':
            check_fixed_wrapped(ctx)
        elif case['kind'] == 'switch-arguments':
            check_switch_arguments(ctx)
        elif case['kind'] == 'fixed':
            check_fixed(ctx)
            ctx.violations = [v for v in ctx.violations if v['case'] == case]
        else:
            check_toggle(ctx)
    finally:
        e.support_deprecated_rabbitmq(False)
