"""C16 - codec calls are independent of history and of concurrent callers."""
import itertools
import json
import logging
import os
import subprocess
import sys
from concurrent.futures import ThreadPoolExecutor

from mc import alphabets as A
from mc import c16events, lib, libstate, reentry, refcodec, sched, spec_table
from mc.c16events import EVENTS, TOGGLES
from mc.canon import short

ID = 'C16'
LEVEL = 'model_checking'
RULE = ('E2 explicit-state exploration of library state: events (65: '
        'construct with defaults, marshal, unmarshal valid, unmarshal '
        'invalid, failing constructions, the 3 toggles, a change of the '
        'caller\'s decimal context and of the logging configuration, '
        'operations failing in the middle of a container, poison-then-repair '
        'of kept objects, deep copies, bare base classes first, '
        'call-then-mutate-the-result composites changing every dict / list / '
        'byte array in place) applied to a freshly imported pamqp; state = '
        'SHA-256 of a deep snapshot of every pamqp module global, class '
        'attribute and function default/closure; BFS with deduplication '
        '(closes at 2 states on the unchanged tree: switch off/on; the state '
        'count is reported, never judged) plus every history of depth <= 2 '
        'and every a;b;a history and every depth-3 history over a core of '
        '19 events (thorough: every history of depth 3 over all 53) '
        'without deduplication, each rebuilt from a fresh '
        'import; oracle: every event\'s canonical result equals the result '
        'of that event alone in a fresh interpreter (one subprocess per '
        'event x switch value) and mutable members of returned objects are '
        'disjoint by id from each other (a reference kept by the library '
        'counts only with an observable consequence: the object is changed '
        'in place, then its own encoding must follow its values and every '
        'event must still give its baseline). E3 schedule '
        'exploration: 23 harnesses of 2 or 3 real threads (incl. toggle-then-'
        'encode against a concurrent encode, a refused call against a served '
        'one, and cache pressure: each thread handling 140 (thorough 300) '
        'names never seen before, <= 1 preemption), every executed line '
        'of pamqp a scheduling point, every schedule with <= 2 (thorough 3) '
        'preemptions; oracle: each thread\'s result equals its sequential '
        'result, and the same calls made one after the other once the '
        'threads are done give what they gave before (post-probe); the two-thread harnesses are also explored from a cold '
        'library (fresh import before every execution, <= 1 preemption) for '
        'first-use initialisation races; same-thread re-entrancy: 8 outer '
        'encodes that reach application code (log handler of the key-'
        'truncation warning, methods of dict / list / int / str subclasses, '
        'tzinfo) x 8 inner calls nested at every such point; six long '
        'single histories of 70 000 (thorough 1.1 million) calls with '
        'ever-changing arguments, every result compared with the reference; a witness harness with a toggle '
        'shows the interleavings are real. A state is a history or a schedule; non-trivial = history of '
        'length >= 2 / schedule with >= 1 preemption.'
        ' '
        'Also: the consumer idiom - keep frame.properties / .headers '
        '/ .arguments, drop the frame, decode on - as an event with '
        'its own invariant (nothing kept changes, nothing is handed '
        'out twice).')
BOUNDS = {'quick': {'history_depth': '2 + all a;b;a + depth 3 over 16 core events', 'threads': 2, 'preemptions': '2 (3 for body encode || method encode, 1 for the header and 3-thread harnesses)'},
          'thorough': {'history_depth': 3, 'threads': '2 and 3',
                       'preemptions': '3 (2 for the header and 3-thread '
                       'harnesses)'}}
ASSUMPTIONS = ['all library state is reachable from pamqp module globals, '
               'class attributes and function defaults/closures (the '
               'non-deduplicated histories do not rely on this)',
               'scheduling points are source lines inside pamqp: preemption '
               'inside a line and C-level races are not modelled (the GIL '
               'serialises bytecodes; pamqp has no C code and no locks)']
SELFTEST_TASK = ('hist', 11, 1)

_BASE = {}
SHARDS = 8
MAX_BFS_STATES = 6
COLD_SHARDS = 4


def baselines():
    """{(event index, legacy): result} from fresh interpreters."""
    if _BASE:
        return _BASE

    def one(args):
        idx, legacy = args
        out = subprocess.run([sys.executable, '-m', 'mc.c16child', str(idx),
                              '1' if legacy else '0'], capture_output=True,
                             text=True, timeout=300)
        if out.returncode != 0:
            raise RuntimeError('baseline child failed: ' + out.stderr[-500:])
        return args, json.loads(out.stdout.strip().splitlines()[-1])['result']
    jobs = [(i, legacy) for i in range(len(EVENTS)) for legacy in (False,
                                                                   True)]
    with ThreadPoolExecutor(16) as pool:
        for key, res in pool.map(one, jobs):
            _BASE[key] = res
    return _BASE


def tasks(tier, seed):
    baselines()
    depth = 3 if tier == 'thorough' else 2
    out = [('bfs',)]
    out += [('reentrant', i) for i in range(reentry.N_OUTERS)]
    out += [('soak', k) for k in SOAK_KINDS]
    out += [('preimport', i) for i in range(len(PRE_IMPORT))]
    out += [('envvars',)]
    out += [('hist', i, depth) for i in range(len(EVENTS))]
    if depth < 3:
        # every depth-3 history over a core of 16 events (one per kind of
        # call: construct, encode, decode, each kind of failure, toggles,
        # environment change, mutation of a result)
        out += [('hist3', i) for i in core_events()]
    for h in range(len(HARNESSES)):
        bound = HARNESSES[h][3 if tier == 'thorough' else 2]
        if bound is None:
            continue
        for k in range(SHARDS):
            out.append(('sched', h, k, bound))
    # the same harnesses from a cold library: every execution starts from a
    # fresh import (first-use initialisation races), <= 1 preemption
    for h in range(len(HARNESSES)):
        if h != WITNESS and len(HARNESSES[h][1]) == 2 and (
                len(HARNESSES[h]) < 5 or HARNESSES[h][4].get('cold', True)):
            for k in range(COLD_SHARDS):
                out.append(('cold', h, k, 1))
    return out


# ---------------------------------------------------------------------------
# E2: histories


def reference_bytes(obj, legacy):
    """Reference encoding of a method / header object's current values."""
    from mc import refcodec, spec_table
    kind = lib.kind_of(obj)
    if kind == 'method':
        m = spec_table.BY_NAME[obj.name]
        vec = [getattr(obj, a[0]) for a in m.args]
        return refcodec.enc_method_frame(m, vec, 1, legacy=legacy)[0]
    if kind == 'header':
        props = {n: getattr(obj.properties, n) for n, _t, _b in
                 spec_table.PROPERTIES
                 if refcodec.is_set(getattr(obj.properties, n))}
        return refcodec.enc_header_frame(obj.body_size, props, 1,
                                         legacy=legacy)[0]
    return None


def confirm_alias(p, obj, legacy):
    """Observable consequence of the library keeping a reference to a
    mutable member of `obj`?  Returns a description or None."""
    try:
        c16events.mutate_all(obj, 'confirm')
    except Exception as exc:  # noqa
        return 'mutating the returned object raised %r' % (exc,)
    try:
        want = reference_bytes(obj, legacy)
        if want is not None:
            got = p.frame.marshal(obj, 1)
            if got != want:
                return ('after changing it in place its encoding does not '
                        'follow its current values: %s instead of %s' % (
                            got.hex()[:120], want.hex()[:120]))
    except Exception:  # noqa
        pass        # not encodable after the change: nothing to compare
    for idx, (name, ev) in enumerate(EVENTS):
        if name in TOGGLES or name.startswith('env:'):
            continue
        try:
            res = ev(p, lambda o: None)
        except Exception as exc:  # noqa
            res = ['event raised', type(exc).__name__, str(exc)[:200]]
        res = json.loads(json.dumps(res))
        if res != _BASE[(idx, legacy)]:
            return ('after changing it in place the event "%s" gives %s '
                    'instead of %s' % (name, short(res, 160),
                                       short(_BASE[(idx, legacy)], 160)))
    return None


_PRISTINE = {'pid': None}


def pristine():
    """Make this process hold a freshly imported pamqp that has never been
    used.  Histories run in forked children of it: each child starts from
    exactly that state (copy-on-write), which costs 2 ms instead of the 33 ms
    of importing the library again, and nothing a history does can reach the
    next one."""
    if _PRISTINE['pid'] != os.getpid() or not _PRISTINE.get('clean'):
        libstate.fresh_import()
        _PRISTINE.update(pid=os.getpid(), clean=True)


def task_cost(task):
    """Rough relative duration, to start the long tasks first."""
    kind = task[0]
    if kind == 'hist':
        name = EVENTS[task[1]][0]
        return 30 if name.startswith('decode 130 times') else 4
    if kind in ('sched', 'cold'):
        name = HARNESSES[task[1]][0]
        if 'never-seen' in name or 'nesting depth' in name:
            return 16
        return 3 if kind == 'sched' else 2
    if kind == 'hist3':
        return 8
    if kind == 'soak':
        return 6
    return 1


def run_history(ctx, hist, check_state=None):
    """Run one history in a forked child of the pristine process and fold
    what it observed into ctx.  Returns (state hash, legacy, ok)."""
    import pickle
    import select
    pristine()
    r, w = os.pipe()
    pid = os.fork()
    if pid == 0:
        code = 0
        try:
            os.close(r)
            child = type(ctx)(ctx.prop_id, ctx.tier, ctx.seed)
            try:
                ret = _run_history_here(child, hist, fresh=False)
                payload = ('ok', ret, child.export())
            except BaseException as exc:  # noqa
                import traceback
                payload = ('error', repr(exc), traceback.format_exc()[-1500:])
            with os.fdopen(w, 'wb') as fh:
                pickle.dump(payload, fh)
        except BaseException:  # noqa
            code = 3
        finally:
            os._exit(code)
    os.close(w)
    chunks = []
    deadline = 180
    try:
        while True:
            ready, _, _ = select.select([r], [], [], deadline)
            if not ready:
                os.kill(pid, 9)
                break
            data = os.read(r, 1 << 16)
            if not data:
                break
            chunks.append(data)
    finally:
        os.close(r)
        try:
            os.waitpid(pid, 0)
        except ChildProcessError:
            pass
    names = [EVENTS[i][0] for i in hist]
    try:
        payload = pickle.loads(b''.join(chunks))
    except Exception:  # noqa
        ctx.violation('history-hang|{}'.format(hist),
                      'the history {} did not finish within {} s (or its '
                      'process died)'.format(names, deadline),
                      {'kind': 'hist', 'hist': list(hist)}, 'results',
                      'no result')
        return 'no-result', False, False
    if payload[0] != 'ok':
        raise RuntimeError('history child failed: %s\n%s' % payload[1:])
    _tag, ret, exp = payload
    ctx.transitions += exp['transitions']
    ctx.validated += exp['validated']
    ctx.outcomes.update(exp['outcomes'])
    ctx.counters.update(exp['counters'])
    for v in exp['violations']:
        ctx.violation(v['fingerprint'], v['message'], v['case'],
                      v['expected'], v['observed'])
    ctx.nviolations += max(0, exp['nviolations'] - len(exp['violations']))
    for c in exp['caps']:
        ctx.cap(c)
    return ret


def _run_history_here(ctx, hist, fresh=True):
    """Replay `hist` (event indices) in this process; compare every event
    with its fresh-interpreter baseline.  Returns (state hash, legacy, ok)."""
    p = libstate.fresh_import() if fresh else lib.pamqp()
    logging.disable(logging.CRITICAL)
    import decimal
    decimal.setcontext(decimal.Context())   # fresh-interpreter environment
    c16events.reset_kept()
    kept = []
    legacy = False
    ok = True
    names = [EVENTS[i][0] for i in hist]
    for pos, idx in enumerate(hist):
        name, ev = EVENTS[idx]
        try:
            res = ev(p, kept.append)
        except Exception as exc:  # noqa
            res = ['event raised', type(exc).__name__, str(exc)[:200]]
        res = json.loads(json.dumps(res))
        ctx.calls()
        ctx.valid()
        want = _BASE[(idx, legacy)]
        if isinstance(res, list) and res[:1] == ['BROKEN']:
            # a composite event found its own invariant broken (this does
            # not depend on the baseline: it may be broken there as well)
            ok = False
            ctx.outcome('event-invariant-broken')
            ctx.violation('event-invariant|{}'.format(idx),
                          'event "{}" (after {}): {}'.format(
                              name, names[:pos], short(res[1:], 400)),
                          {'kind': 'hist', 'hist': list(hist)},
                          'invariant holds', short(res[1:], 400))
            break
        if res != want:
            ok = False
            ctx.outcome('history-dependent')
            ctx.violation('history|{}|{}'.format(hist[:pos + 1], legacy),
                          'after {} (switch {}): event "{}" gave {} but in a '
                          'fresh interpreter it gives {}'.format(
                              names[:pos], 'on' if legacy else 'off', name,
                              short(res, 200), short(want, 200)),
                          {'kind': 'hist', 'hist': list(hist)},
                          short(want, 400), short(res, 400))
            break
        if name in TOGGLES:
            legacy = TOGGLES[name]
    digest, lib_ids, _n = libstate.snapshot()
    # aliasing oracle
    seen = {}
    for k, obj in enumerate(kept):
        if obj is None:
            continue
        ids = c16events.mutable_ids(obj)
        shared = ids & lib_ids
        if shared:
            # The library still refers to a mutable member of an object it
            # handed out.  That alone may be a harmless cache; it is a
            # violation only if it can be OBSERVED: change the object in
            # place, then (1) its own encoding must follow its current
            # values and (2) every event must still give its baseline.
            ctx.count('returned_objects_still_referenced_by_the_library')
            what = confirm_alias(p, obj, legacy)
            if what:
                ok = False
                ctx.violation('alias-lib|{}'.format(hist),
                              'after {}: a returned {} shares a mutable '
                              'member with library state, and it shows: '
                              '{}'.format(names, type(obj).__name__, what),
                              {'kind': 'hist', 'hist': list(hist)},
                              'disjoint, or without observable effect',
                              short(what, 300))
        for other, oids in seen.items():
            if kept[other] is not obj and ids & oids:
                ok = False
                ctx.violation('alias-obj|{}'.format(hist),
                              'after {}: two separately returned objects '
                              '({} and {}) share a mutable member'.format(
                                  names, type(kept[other]).__name__,
                                  type(obj).__name__),
                              {'kind': 'hist', 'hist': list(hist)},
                              'disjoint', 'shared')
        seen[k] = ids
    if ok:
        ctx.outcome('ok')
    p.encode.support_deprecated_rabbitmq(False)
    decimal.setcontext(decimal.Context())
    c16events.env_reset()
    logging.disable(logging.CRITICAL)
    return digest, legacy, ok


def explore_bfs(ctx):
    """BFS over events with state deduplication."""
    start, _legacy, _ok = run_history(ctx, ())
    states = {start: ()}
    expected = {start: False}
    frontier = [()]
    transitions = 0
    while frontier:
        hist = frontier.pop(0)
        for idx in range(len(EVENTS)):
            new = hist + (idx,)
            digest, legacy, ok = run_history(ctx, new)
            transitions += 1
            ctx.case(('bfs', new), True, sample=lambda: {
                'history': [EVENTS[i][0] for i in new],
                'state': digest[:12]})
            if digest not in states:
                states[digest] = new
                expected[digest] = legacy
                if len(states) <= MAX_BFS_STATES:
                    frontier.append(new)
                else:
                    # more library states than the exploration budget: the
                    # search is cut here and the evidence says so (a growing
                    # state is not itself a violation: only results are)
                    ctx.cap('BFS stopped expanding after %d library states'
                            % MAX_BFS_STATES)
    ctx.count('bfs_states', len(states))
    ctx.count('bfs_transitions', transitions)


CORE = ['construct Queue.Declare', 'marshal Queue.Declare',
        'marshal ContentHeader', 'unmarshal Queue.Declare',
        'unmarshal ContentHeader', 'unmarshal truncated',
        'unmarshal over-long array',
        'unmarshal header failing inside its properties',
        'construct bad exchange name', 'toggle (True)', 'toggle (False)',
        'encode flag-sensitive table', 'env: decimal context prec=6',
        'marshal refused mid-way', 'mutate decoded arguments',
        'encode Decimal 21474836.47', 'unmarshal Basic.Publish',
        'define application subclasses of method classes',
        'unmarshal frames with unknown class / method ids']


def core_events():
    names = [e[0] for e in EVENTS]
    return [names.index(n) for n in CORE if n in names]


def explore_core3(ctx, first):
    core = core_events()
    for b in core:
        for c_ in core:
            hist = (first, b, c_)
            ctx.case(('hist', hist), True, sample=lambda: {
                'history': [EVENTS[i][0] for i in hist]})
            run_history(ctx, hist)


def explore_histories(ctx, first, depth):
    n = len(EVENTS)
    for length in range(1, depth + 1):
        for rest in itertools.product(range(n), repeat=length - 1):
            hist = (first,) + rest
            ctx.case(('hist', hist), length >= 2, sample=lambda: {
                'history': [EVENTS[i][0] for i in hist]})
            run_history(ctx, hist)
    if depth < 3:
        # every a; b; a history: does an intervening call change what the
        # same call returns (stale caches, retained buffers)?
        for b in range(n):
            hist = (first, b, first)
            ctx.case(('hist', hist), True, sample=lambda: {
                'history': [EVENTS[i][0] for i in hist]})
            run_history(ctx, hist)


# ---------------------------------------------------------------------------
# Environment set up BEFORE the library is imported


def _pre_decimal_default():
    import decimal
    decimal.DefaultContext.prec = 6
    decimal.DefaultContext.rounding = decimal.ROUND_DOWN
    decimal.setcontext(decimal.DefaultContext)


def _pre_decimal_traps():
    import decimal
    decimal.DefaultContext.prec = 9
    decimal.DefaultContext.traps[decimal.Inexact] = True
    decimal.DefaultContext.traps[decimal.Rounded] = True
    decimal.DefaultContext.Emax = 99
    decimal.DefaultContext.Emin = -99


def _pre_logging_debug():
    logging.disable(logging.NOTSET)
    logging.basicConfig(level=logging.DEBUG, handlers=[lib._Sink()],
                        force=True)


def _pre_warnings_error():
    import warnings
    warnings.simplefilter('error')


def _pre_recursion_limit():
    sys.setrecursionlimit(400)


PRE_IMPORT = [('decimal.DefaultContext.prec = 6, ROUND_DOWN, made current',
               _pre_decimal_default),
              ('decimal.DefaultContext traps Inexact / Rounded, Emax 99',
               _pre_decimal_traps),
              ('logging configured at DEBUG', _pre_logging_debug),
              ('warnings raised as errors', _pre_warnings_error),
              ('recursion limit 400', _pre_recursion_limit)]


def preimport(ctx, which):
    """The application configures the process FIRST and imports pamqp
    afterwards (whatever the library captures at import time - a default
    context, a logger level, a filter list - comes from that configuration):
    in a forked child the configuration is applied, pamqp is imported anew,
    and every event must give its baseline."""
    import pickle
    label, configure = PRE_IMPORT[which]
    pristine()
    r, w = os.pipe()
    pid = os.fork()
    if pid == 0:
        code = 0
        try:
            os.close(r)
            out = []
            try:
                configure()
                p = libstate.fresh_import()
                for idx, (name, ev) in enumerate(EVENTS):
                    if name in TOGGLES or name.startswith('env:'):
                        continue
                    if which == 3 and 'deprecated' in name:
                        pass
                    try:
                        res = ev(p, lambda o: None)
                    except Exception as exc:  # noqa
                        res = ['event raised', type(exc).__name__,
                               str(exc)[:200]]
                    out.append((idx, json.loads(json.dumps(res))))
            except BaseException as exc:  # noqa
                out.append((-1, repr(exc)))
            with os.fdopen(w, 'wb') as fh:
                pickle.dump(out, fh)
        except BaseException:  # noqa
            code = 3
        finally:
            os._exit(code)
    os.close(w)
    with os.fdopen(r, 'rb') as fh:
        data = fh.read()
    os.waitpid(pid, 0)
    try:
        out = pickle.loads(data)
    except Exception:  # noqa
        out = [(-1, 'no result from the child process')]
    for idx, res in out:
        ctx.case(('preimport', which, idx), True, sample={
            'configured_before_import': label,
            'event': EVENTS[idx][0] if idx >= 0 else 'import'})
        ctx.calls()
        ctx.valid()
        if idx < 0:
            ctx.violation('preimport|{}|import'.format(which),
                          'with {} before the import, importing pamqp or '
                          'running the events failed: {}'.format(label, res),
                          {'kind': 'preimport', 'which': which}, 'import',
                          res)
            continue
        want = _BASE[(idx, False)]
        if res != want:
            ctx.outcome('environment-dependent')
            ctx.violation('preimport|{}|{}'.format(which, idx),
                          'process configured ({}) BEFORE pamqp was '
                          'imported: event "{}" gives {} instead of {}'
                          .format(label, EVENTS[idx][0], short(res, 200),
                                  short(want, 200)),
                          {'kind': 'preimport', 'which': which},
                          short(want, 300), short(res, 300))
        else:
            ctx.outcome('ok')


# ---------------------------------------------------------------------------
# Environment variables the library reads


def environment_variables_read():
    """Names of environment variables the library source looks up
    (os.environ.get('X') / os.environ['X'] / os.getenv('X') / 'X' in
    os.environ): found by walking the syntax tree of pamqp/*.py.  The pinned
    tree reads none."""
    import ast
    from mc import runner
    names = set()
    root = os.path.join(runner.REPO, 'pamqp')
    for fname in sorted(os.listdir(root)):
        if not fname.endswith('.py'):
            continue
        try:
            tree = ast.parse(open(os.path.join(root, fname),
                                  encoding='utf-8').read())
        except (OSError, SyntaxError):
            continue
        for node in ast.walk(tree):
            text = None
            if isinstance(node, ast.Call):
                f = ast.unparse(node.func)
                if f.endswith(('environ.get', 'getenv', 'environ.pop',
                               'environ.setdefault')) and node.args:
                    text = node.args[0]
            elif isinstance(node, ast.Subscript) and \
                    ast.unparse(node.value).endswith('environ'):
                text = node.slice
            elif isinstance(node, ast.Compare) and any(
                    ast.unparse(c).endswith('environ')
                    for c in node.comparators):
                text = node.left
            if isinstance(text, ast.Constant) and isinstance(text.value, str):
                names.add(text.value)
    return sorted(names)


ENV_VALUES = ['', '0', '1', 'false', 'no', 'off', 'true', 'x', '0 ']


def envvars(ctx):
    """The result of a codec call depends on its arguments and the legacy
    switch - not on what some environment variable holds when the process
    starts.  For every variable the library reads and every value of a small
    menu, the events that show the ladder and the defaults are run in a fresh
    interpreter started with that variable and must give their baseline."""
    names = environment_variables_read()
    ctx.count('environment_variables_read_by_the_library', len(names))
    probes = [i for i, (n, _e) in enumerate(EVENTS) if n in (
        'encode flag-sensitive table', 'marshal Queue.Declare',
        'marshal ContentHeader', 'unmarshal Queue.Declare',
        'construct Queue.Declare', 'encode Decimal 21474836.47',
        'unmarshal prefixes of 0..9 bytes', 'construct bad exchange name')]
    jobs = [(n, v, i) for n in names for v in ENV_VALUES for i in probes]

    def one(job):
        name, value, idx = job
        env = dict(os.environ)
        env[name] = value
        out = subprocess.run([sys.executable, '-m', 'mc.c16child', str(idx),
                              '0'], capture_output=True, text=True,
                             timeout=300, env=env)
        try:
            return job, json.loads(out.stdout.strip().splitlines()[-1])[
                'result']
        except Exception:  # noqa
            return job, ['child failed', out.stderr[-300:]]
    # A variable may legitimately select the legacy ladder at start-up (the
    # statement allows the switch to be on); what it may not do is produce a
    # third behaviour, apply to some calls only, or take effect when it is
    # empty or "0" (not configured).
    seen = {}
    with ThreadPoolExecutor(8) as pool:
        for (name, value, idx), res in pool.map(one, jobs):
            ctx.case(('envvar', name, value, idx), True, sample={
                'environment': '%s=%r' % (name, value),
                'event': EVENTS[idx][0]})
            ctx.calls()
            ctx.valid()
            off, on = _BASE[(idx, False)], _BASE[(idx, True)]
            which = 'off' if res == off else 'on' if res == on else 'other'
            if off != on:
                seen.setdefault((name, value), set()).add(which)
            if which == 'other' or (which == 'on' and off != on and
                                    value in ('', '0')):
                ctx.outcome('environment-dependent')
                ctx.violation('envvar|{}|{}|{}'.format(name, value, idx),
                              'process started with {}={!r}: event "{}" '
                              'gives {} instead of {}'.format(
                                  name, value, EVENTS[idx][0],
                                  short(res, 200), short(off, 200)),
                              {'kind': 'envvars'}, short(off, 300),
                              short(res, 300))
            else:
                ctx.outcome('ok')
    for (name, value), kinds in sorted(seen.items()):
        if len(kinds) > 1:
            ctx.violation('envvar-mixed|{}|{}'.format(name, value),
                          'process started with {}={!r}: some calls follow '
                          'the legacy ladder and others do not ({})'.format(
                              name, value, sorted(kinds)),
                          {'kind': 'envvars'}, 'one ladder', sorted(kinds))


# ---------------------------------------------------------------------------
# Long single histories: a process that has made very many calls


SOAK_KINDS = ['marshal-method', 'unmarshal-method', 'header', 'table',
              'body', 'construct']


def soak(ctx, kind):
    """ONE deterministic history of 70 000 calls (thorough 1 100 000: past
    2^16 and 2^20) of one kind with ever-changing arguments; every single
    result is compared with the reference codec.  Counters that wrap,
    caches trimmed or rebuilt after thousands of entries, work done every
    N-th call: whatever a long-running process meets that a short one does
    not."""
    from mc import refcodec, spec_table
    p = lib.pamqp()
    n = 1100000 if ctx.tier == 'thorough' else 70000
    pub = spec_table.BY_NAME['Basic.Publish']
    ack = spec_table.BY_NAME['Basic.Ack']
    qd = spec_table.BY_NAME['Queue.Declare']
    bad = None
    ctx.case(('soak', kind, n), True, sample={'soak': kind, 'calls': n})
    for i in range(n):
        ch = i & 0xFFFF
        if kind == 'marshal-method':
            if i % 2:
                got = p.frame.marshal(p.commands.Basic.Ack(i * 2654435761 %
                                                           2**63, i % 3 == 0),
                                      ch)
                want = refcodec.enc_method_frame(
                    ack, (i * 2654435761 % 2**63, i % 3 == 0), ch)[0]
            else:
                vec = (0, 'ex%d' % (i % 977), 'rk.%d' % i, i % 5 == 0,
                       i % 7 == 0)
                got = p.frame.marshal(p.commands.Basic.Publish(*vec), ch)
                want = refcodec.enc_method_frame(pub, vec, ch)[0]
            ok = got == want
        elif kind == 'unmarshal-method':
            vec = (0, 'ex%d' % (i % 977), 'rk.%d' % i, i % 5 == 0, i % 7 == 0)
            data = refcodec.enc_method_frame(pub, vec, ch)[0]
            consumed, channel, obj = p.frame.unmarshal(data)
            got = (consumed, channel, obj.exchange, obj.routing_key,
                   obj.mandatory, obj.immediate)
            want = (len(data), ch, vec[1], vec[2], vec[3], vec[4])
            ok = got == want
        elif kind == 'header':
            props = {'message_id': 'm-%d' % i, 'priority': i % 256,
                     'delivery_mode': 1 + i % 2,
                     'headers': {'n%d' % i: i, 'k': 'v%d' % (i % 131)}}
            got = p.frame.marshal(p.header.ContentHeader(
                0, i, p.commands.Basic.Properties(**props)), ch)
            want = refcodec.enc_header_frame(i, props, ch)[0]
            back = p.frame.unmarshal(got)[2]
            ok = got == want and back.body_size == i and \
                back.properties.message_id == props['message_id'] and \
                back.properties.headers == props['headers']
        elif kind == 'table':
            t = {'name-%d' % i: 40000 + i, 's': 'value-%d' % i,
                 'l': [i, -i, 'e%d' % (i % 61)], 'big': 3000000000 + i}
            got = p.encode.field_table(t)
            want = refcodec.enc_table(t)
            ok = got == want and p.decode.field_table(got) == (len(got), t)
        elif kind == 'body':
            payload = (b'%d|' % i) * (1 + i % 13)
            got = p.frame.marshal(p.body.ContentBody(payload), ch)
            want = refcodec.enc_body_frame(payload, ch)[0]
            back = p.frame.unmarshal(got)
            ok = got == want and back[0] == len(got) and \
                back[2].value == payload
        else:
            o = p.commands.Queue.Declare(queue='q%d' % i)
            o.arguments['n'] = i
            o2 = p.commands.Queue.Declare()
            got = (o2.arguments, o2.queue, o.arguments)
            want = ({}, '', {'n': i})
            ok = got == want and o2.arguments is not o.arguments
        if not ok:
            bad = (i, got, want)
            break
    ctx.calls(n)
    ctx.valid(n)
    if bad:
        ctx.outcome('history-dependent')
        ctx.violation('soak|{}|{}'.format(kind, bad[0]),
                      'long history of {} calls: call number {} gave {} '
                      'instead of {}'.format(kind, bad[0] + 1,
                                             short(bad[1], 200),
                                             short(bad[2], 200)),
                      {'kind': 'soak', 'soak': kind}, short(bad[2], 300),
                      short(bad[1], 300))
    else:
        ctx.outcome('ok')


# ---------------------------------------------------------------------------
# E3: thread schedules


def _body(idx):
    def body():
        res = EVENTS[idx][1](lib.pamqp(), lambda o: None)
        return json.loads(json.dumps(res))
    body.label = EVENTS[idx][0]
    return body


def _call(label, func):
    def body():
        return json.loads(json.dumps(func(lib.pamqp())))
    body.label = label
    return body


def _seq(*bodies):
    def body():
        return [b() for b in bodies]
    body.label = ' ; '.join(b.label for b in bodies)
    return body


def _idx(name):
    return [i for i, e in enumerate(EVENTS) if e[0] == name][0]


T1 = {'a': [1, {'b': 2}]}
T2 = {'z': ['x', {'y': None}]}
_M = c16events.M
ACK = c16events.refcodec.enc_method_frame(_M['Basic.Ack'], (5, True), 1)[0]
ACK2 = c16events.refcodec.enc_method_frame(_M['Basic.Ack'], (9, False), 2)[0]
NACK = c16events.refcodec.enc_method_frame(_M['Basic.Nack'],
                                           (7, False, True), 2)[0]
HDR1 = c16events.refcodec.enc_header_frame(
    3, {'content_type': 'a', 'priority': 1}, 1)[0]
HDR2 = c16events.refcodec.enc_header_frame(
    4, {'headers': {'k': 1}, 'app_id': 'x'}, 2)[0]
ENC_T1 = c16events.refcodec.enc_table(T1)
ENC_T2 = c16events.refcodec.enc_table(T2)
BAD_T = ENC_T2.replace(b'S\x00\x00\x00\x01x', b'Z\x00\x00\x00\x01x')


def _view(out):
    consumed, ch, obj = out
    return [consumed, ch, repr(lib.frame_summary(obj))]


def _try(f):
    try:
        return f()
    except Exception as exc:  # noqa
        return ['raised', type(exc).__name__]


def _construct_mutate(p):
    a = p.commands.Queue.Declare()
    a.arguments['injected'] = 1
    b = p.commands.Queue.Declare()
    return [c16events.c(b.arguments), a.arguments is b.arguments]


def _construct_header_mutate(p):
    a = p.header.ContentHeader()
    a.properties.app_id = 'mutated'
    b = p.header.ContentHeader()
    return [repr(lib.frame_summary(b)), a.properties is b.properties]


# (name, bodies, preemption bound in quick / thorough)
HARNESSES = [
    ('table encode || table encode', [
        _call('field_table(T1)', lambda p: p.encode.field_table(T1).hex()),
        _call('field_table(T2)', lambda p: p.encode.field_table(T2).hex())],
     2, 3),
    ('array encode || array encode', [
        _call('field_array(A1)',
              lambda p: p.encode.field_array([1, [2], 'a']).hex()),
        _call('field_array(A2)',
              lambda p: p.encode.field_array(['b', [True], -1]).hex())],
     2, 3),
    ('table decode || table decode', [
        _call('decode.field_table(T1)', lambda p: c16events.c(
            p.decode.field_table(ENC_T1))),
        _call('decode.field_table(T2)', lambda p: c16events.c(
            p.decode.field_table(ENC_T2)))], 2, 3),
    ('method decode || method decode (same frame type, bits)', [
        _call('unmarshal Basic.Ack', lambda p: _view(p.frame.unmarshal(ACK))),
        _call('unmarshal Basic.Nack',
              lambda p: _view(p.frame.unmarshal(NACK)))], 2, 3),
    ('method decode || method decode (same class, other values)', [
        _call('unmarshal Basic.Ack 5', lambda p: _view(p.frame.unmarshal(ACK))),
        _call('unmarshal Basic.Ack 9', lambda p: _view(p.frame.unmarshal(
            ACK2)))], 2, 3),
    ('method encode || method encode (same class)', [
        _call('marshal Basic.Ack 5', lambda p: p.frame.marshal(
            p.commands.Basic.Ack(5, True), 1).hex()),
        _call('marshal Basic.Ack 9', lambda p: p.frame.marshal(
            p.commands.Basic.Ack(9, False), 2).hex())], 2, 3),
    ('method encode || method decode', [
        _call('marshal Basic.Nack', lambda p: p.frame.marshal(
            p.commands.Basic.Nack(5, True, False), 1).hex()),
        _call('unmarshal Basic.Ack',
              lambda p: _view(p.frame.unmarshal(ACK)))], 2, 3),
    ('method encode || method encode (other channel, other size)', [
        _call('marshal Basic.Nack ch 1', lambda p: p.frame.marshal(
            p.commands.Basic.Nack(5, True, False), 1).hex()),
        _call('marshal Basic.Cancel ch 515', lambda p: p.frame.marshal(
            p.commands.Basic.Cancel('consumer-tag', True), 515).hex())],
     2, 3),
    ('body encode || method encode', [
        _call('marshal ContentBody ch 7', lambda p: p.frame.marshal(
            p.body.ContentBody(b'payload' * 40), 7).hex()),
        _call('marshal Basic.Ack ch 1', lambda p: p.frame.marshal(
            p.commands.Basic.Ack(9, False), 1).hex())], 3, 3),
    ('header encode || header decode', [
        _call('marshal ContentHeader', lambda p: p.frame.marshal(
            p.header.ContentHeader(0, 3, p.commands.Basic.Properties(
                content_type='a', priority=1)), 1).hex()),
        _call('unmarshal ContentHeader',
              lambda p: _view(p.frame.unmarshal(HDR2)))], 1, 2),
    ('header decode || header decode', [
        _call('unmarshal ContentHeader 1',
              lambda p: _view(p.frame.unmarshal(HDR1))),
        _call('unmarshal ContentHeader 2',
              lambda p: _view(p.frame.unmarshal(HDR2)))], 1, 2),
    ('construct default + mutate || construct default + mutate', [
        _call('Queue.Declare() mutate', _construct_mutate),
        _call('ContentHeader() mutate', _construct_header_mutate)], 2, 3),
    ('construct default + mutate || table decode', [
        _call('Queue.Declare() mutate', _construct_mutate),
        _call('decode.field_table(T1)', lambda p: c16events.c(
            p.decode.field_table(ENC_T1)))], 2, 3),
    ('failed decode || valid decode', [
        _call('decode.field_table(bad tag)', lambda p: _try(
            lambda: c16events.c(p.decode.field_table(BAD_T)))),
        _call('decode.field_table(T2)', lambda p: c16events.c(
            p.decode.field_table(ENC_T2)))], 2, 3),
    ('WITNESS toggle || encode', [
        _call('support_deprecated_rabbitmq(True)',
              lambda p: p.encode.support_deprecated_rabbitmq(True) or 'set'),
        _call('field_array([40000, 40000])',
              lambda p: p.encode.field_array([40000, 40000]).hex())], 2, 3),
    ('array encode || table decode || construct (3 threads)', [
        _call('field_array(A1)',
              lambda p: p.encode.field_array([1, [2]]).hex()),
        _call('decode.field_table(T1)', lambda p: c16events.c(
            p.decode.field_table(ENC_T1))),
        _call('Queue.Declare() mutate', _construct_mutate)], 1, 2),
]
WITNESS = 14


def _toggle(v):
    return _call('support_deprecated_rabbitmq(%s)' % v,
                 lambda p: p.encode.support_deprecated_rabbitmq(v) or 'set')


_LADDER = [40000, {'k': 3000000000}]
_OTHER = {'a': [40000, {'b': 3000000000}], 'z': 1}


def _other_ok(result):
    """The concurrent table encode may see either ladder per integer; it
    must still be a well-formed encoding of its own argument."""
    try:
        r = c16events.refcodec.R(bytes.fromhex(result))
        got = c16events.refcodec.get_table(r)
        return r.pos == r.end and c16events.c(got) == c16events.c(
            _OTHER)
    except Exception:  # noqa
        return False


def _publish(name):
    def f(p):
        return repr(lib.frame_summary(p.commands.Basic.Publish(
            exchange=name, routing_key='k')))
    return f


def _rename_and_marshal(name):
    def f(p):
        o = p.commands.Queue.Declare(queue='fine')
        o.queue = name
        return p.frame.marshal(o, 1).hex()
    return f


# one caller is refused while another is served: neither verdict may leak
# into the other call, nor into the calls made afterwards (post-probe)
HARNESSES += [
    ('construct invalid name || construct valid name', [
        _call('Basic.Publish(exchange=orders!)',
              lambda p: _try(lambda: _publish('orders!')(p))),
        _call('Basic.Publish(exchange=orders)',
              lambda p: _try(lambda: _publish('orders')(p)))], 2, 3),
    ('setattr invalid + marshal || setattr valid + marshal', [
        _call('Queue.Declare.queue = bad*name; marshal',
              lambda p: _try(lambda: _rename_and_marshal('bad*name')(p))),
        _call('Queue.Declare.queue = good-name; marshal',
              lambda p: _try(lambda: _rename_and_marshal('good-name')(p)))],
     1, 2),
    ('refused encode || encode', [
        _call('marshal Queue.Declare(arguments with 2**64)', lambda p: _try(
            lambda: p.frame.marshal(p.commands.Queue.Declare(
                queue='q', arguments={'a': 1, 'l': [2, 2 ** 64]}), 1).hex())),
        _call('marshal Queue.Declare(arguments ok)', lambda p: _try(
            lambda: p.frame.marshal(p.commands.Queue.Declare(
                queue='q', arguments={'a': 1, 'l': [2, 3]}), 1).hex()))],
     1, 2),
]

def _strict_warnings_setup():
    reset_switch()
    import warnings
    _STRICT['saved'] = list(warnings.filters)
    warnings.simplefilter('error')


def _strict_warnings_teardown():
    import warnings
    if 'saved' in _STRICT:
        warnings.filters[:] = _STRICT.pop('saved')
        try:
            warnings._filters_mutated()
        except AttributeError:
            pass
    reset_switch()


_STRICT = {}


def _decode_view(buf):
    return lambda p: _try(lambda: _view(p.frame.unmarshal(buf)))


def _construct_deprecated(p):
    """Under -W error the application's own use of the deprecated command
    must still be refused: the filters are the application's, not ours."""
    try:
        p.commands.Basic.RecoverAsync()
        return 'constructed'
    except Warning as exc:
        return ['raised', type(exc).__name__]


def _strict_probe(p):
    """What the application set up is still in force: its own use of the
    deprecated command is refused, and the filter list is the one it set."""
    import warnings
    return [_construct_deprecated(p),
            [f[0] for f in warnings.filters[:3]],
            len(warnings.filters) - len(_STRICT.get('saved', []))]


# warnings raised as errors (-W error): received frames of a deprecated
# method decode in both threads, and the process-wide warning filters are
# what they were afterwards (post-probe)
HARNESSES += [
    ('[warnings as errors] decode deprecated method || decode deprecated '
     'method', [
        _call('unmarshal Basic.RecoverAsync',
              _decode_view(c16events.BUF_RECOVER_ASYNC)),
        _call('unmarshal Basic.RecoverAsync; construct one',
              lambda p: [_decode_view(c16events.BUF_RECOVER_ASYNC)(p),
                         _construct_deprecated(p)])], 2, 3,
     {'cold': False, 'setup': _strict_warnings_setup,
      'teardown': _strict_warnings_teardown, 'probe': _strict_probe}),
    ('[warnings as errors] decode deprecated method || decode Basic.Ack', [
        _call('unmarshal Basic.RecoverAsync',
              _decode_view(c16events.BUF_RECOVER_ASYNC)),
        _call('unmarshal Basic.Ack; construct deprecated',
              lambda p: [_decode_view(ACK)(p), _construct_deprecated(p)])],
     2, 3, {'cold': False, 'setup': _strict_warnings_setup,
            'teardown': _strict_warnings_teardown, 'probe': _strict_probe}),
]

# cache pressure: each thread handles ONE input with hundreds of names /
# integers / strings never seen before (different ones per thread), so that
# whatever the library memoises fills up, evicts and trims while the other
# thread does the same (bound 1: one thread is stopped anywhere, the other
# runs to completion, the first resumes)
N_FRESH = 140      # quick; thorough adds the same harnesses with 300


def _fresh_table(tag, n=None):
    n = n or N_FRESH
    return {'%s-name-%04d' % (tag, i): (
        70000 + i * 7 if i % 2 == 0 else '%s-value-%d' % (tag, i))
        for i in range(n)}


_FRESH_A, _FRESH_B = _fresh_table('a'), _fresh_table('b')
_ENC_FRESH_A = c16events.refcodec.enc_table(_FRESH_A)
_ENC_FRESH_B = c16events.refcodec.enc_table(_FRESH_B)


def _fill_names():
    """Whatever the library remembers about names is full before the
    threads start (a bounded cache evicts from the first new name on)."""
    reset_switch()
    p = lib.pamqp()
    p.decode.field_table(_ENC_FRESH_A)
    p.encode.field_table(_FRESH_B)


def _digest(value):
    import hashlib
    return hashlib.sha256(c16events.c(value).encode()).hexdigest()


HARNESSES += [
    ('decode %d never-seen names || decode %d other never-seen names' % (
        N_FRESH, N_FRESH), [
        _call('decode.field_table(fresh A)', lambda p: _try(
            lambda: _digest(p.decode.field_table(_ENC_FRESH_A)))),
        _call('decode.field_table(fresh B)', lambda p: _try(
            lambda: _digest(p.decode.field_table(_ENC_FRESH_B))))], 1, 1,
     {'cold': False}),
    ('encode %d never-seen names || encode %d other never-seen names' % (
        N_FRESH, N_FRESH), [
        _call('encode.field_table(fresh A)', lambda p: _try(
            lambda: p.encode.field_table(_FRESH_A).hex()[-64:])),
        _call('encode.field_table(fresh B)', lambda p: _try(
            lambda: p.encode.field_table(_FRESH_B).hex()[-64:]))], None, 1,
     {'cold': False}),
]
# ... and the same with a scheduling point after every call INSIDE a line
# (a check-then-act that fits in one source line)
N_FINE = 40         # names per thread where every call is a point
_FINE_A, _FINE_B = _fresh_table('fa', N_FINE), _fresh_table('fb', N_FINE)
_ENC_FINE_A = c16events.refcodec.enc_table(_FINE_A)
_ENC_FINE_B = c16events.refcodec.enc_table(_FINE_B)
HARNESSES += [
    ('[points inside lines] decode %d names || decode %d other names (on '
     'top of the %d of the harnesses above)' % (N_FINE, N_FINE, 2 * N_FRESH), [
         _call('decode.field_table(fine A)', lambda p: _try(
             lambda: _digest(p.decode.field_table(_ENC_FINE_A)))),
         _call('decode.field_table(fine B)', lambda p: _try(
             lambda: _digest(p.decode.field_table(_ENC_FINE_B))))], 1, 1,
     {'cold': False, 'fine': True, 'setup': lambda: _fill_names()}),
    ('[points inside lines] encode %d names || encode %d other names' % (
        N_FINE, N_FINE), [
         _call('encode.field_table(fine A)', lambda p: _try(
             lambda: p.encode.field_table(_FINE_A).hex()[-64:])),
         _call('encode.field_table(fine B)', lambda p: _try(
             lambda: p.encode.field_table(_FINE_B).hex()[-64:]))], 1, 1,
     {'cold': False, 'fine': True, 'setup': lambda: _fill_names()}),
    ('[points inside lines] decode %d never-seen names || decode %d other '
     'never-seen names' % (N_FRESH, N_FRESH), [
         _call('decode.field_table(fresh A)', lambda p: _try(
             lambda: _digest(p.decode.field_table(_ENC_FRESH_A)))),
         _call('decode.field_table(fresh B)', lambda p: _try(
             lambda: _digest(p.decode.field_table(_ENC_FRESH_B))))], None, 1,
     {'cold': False, 'fine': True}),
    ('[points inside lines] method decode || method decode', [
        _call('unmarshal Basic.Ack', lambda p: _view(p.frame.unmarshal(ACK))),
        _call('unmarshal Queue.Declare', lambda p: _view(p.frame.unmarshal(
            c16events.BUF_QD)))], 1, 2, {'fine': True}),
    ('[points inside lines] method encode || header encode', [
        _call('marshal Queue.Declare', lambda p: p.frame.marshal(
            p.commands.Queue.Declare(queue='q', arguments={'a': [1, 'x']}),
            3).hex()),
        _call('marshal ContentHeader', lambda p: p.frame.marshal(
            p.header.ContentHeader(0, 9, p.commands.Basic.Properties(
                app_id='a', headers={'k': 40000})), 2).hex())], 1, 2,
     {'fine': True}),
]


def _nested(depth, leaf):
    v = leaf
    for i in range(depth):
        v = {'k': v} if i % 2 else [v]
    return {'d': v}


# both threads deep inside nested containers at the same time (a depth or
# size account kept per process instead of per call adds them up)
_DEEP_A = c16events.refcodec.enc_table(_nested(130, 'a'))
_DEEP_B = c16events.refcodec.enc_table(_nested(130, 'b'))
_DEEP_OBJ_A, _DEEP_OBJ_B = _nested(130, 'a'), _nested(130, 'b')
HARNESSES += [
    ('decode nesting depth 130 || decode nesting depth 130', [
        _call('decode.field_table(deep A)', lambda p: _try(
            lambda: _digest(p.decode.field_table(_DEEP_A)))),
        _call('decode.field_table(deep B)', lambda p: _try(
            lambda: _digest(p.decode.field_table(_DEEP_B))))], 1, 1,
     {'cold': False}),
    ('encode nesting depth 130 || encode nesting depth 130', [
        _call('encode.field_table(deep A)', lambda p: _try(
            lambda: p.encode.field_table(_DEEP_OBJ_A).hex()[-40:])),
        _call('encode.field_table(deep B)', lambda p: _try(
            lambda: p.encode.field_table(_DEEP_OBJ_B).hex()[-40:]))], None, 1,
     {'cold': False}),
]
_BIG_A, _BIG_B = _fresh_table('c', 300), _fresh_table('d', 300)
_ENC_BIG_A = c16events.refcodec.enc_table(_BIG_A)
_ENC_BIG_B = c16events.refcodec.enc_table(_BIG_B)
HARNESSES += [     # thorough only (quick bound None)
    ('decode 300 never-seen names || decode 300 other never-seen names', [
        _call('decode.field_table(fresh C)', lambda p: _try(
            lambda: _digest(p.decode.field_table(_ENC_BIG_A)))),
        _call('decode.field_table(fresh D)', lambda p: _try(
            lambda: _digest(p.decode.field_table(_ENC_BIG_B))))], None, 1,
     {'cold': False}),
    ('encode 300 never-seen names || encode 300 other never-seen names', [
        _call('encode.field_table(fresh C)', lambda p: _try(
            lambda: p.encode.field_table(_BIG_A).hex()[-64:])),
        _call('encode.field_table(fresh D)', lambda p: _try(
            lambda: p.encode.field_table(_BIG_B).hex()[-64:]))], None, 1,
     {'cold': False}),
]

# a thread that selects a ladder and then encodes must get THAT ladder,
# whatever another thread is in the middle of (thread 0 is judged against
# its sequential result; thread 1 only for well-formedness)
HARNESSES += [
    ('toggle on; encode || nested table encode', [
        _seq(_toggle(True), _call('field_array(ladder)', lambda p:
                                  p.encode.field_array(_LADDER).hex())),
        _call('field_table(other)',
              lambda p: p.encode.field_table(_OTHER).hex())], 2, 3,
     {'judged': [0], 'custom': {1: _other_ok}}),
    ('toggle on; toggle off; encode || nested table encode', [
        _seq(_toggle(True), _toggle(False),
             _call('field_table(ladder)', lambda p: p.encode.field_table(
                 {'v': _LADDER}).hex())),
        _call('field_table(other)',
              lambda p: p.encode.field_table(_OTHER).hex())], 2, 3,
     {'judged': [0], 'custom': {1: _other_ok}}),
]


def _narrow(func, **settings):
    """Run func under a decimal context of this thread's own making: the
    context is the calling thread's environment, and worker threads are not
    the thread that imported the library."""
    import decimal

    def run(p):
        with decimal.localcontext() as ctx:
            for k, v in settings.items():
                setattr(ctx, k, v)
            return func(p)
    return run


_DEC_TABLE = {'d': A.D('1234.5678'), 'e': [A.D('-21474836.47'), A.D('0.001')],
              'n': {'x': A.D('2147483.647')}}
_DEC_WIRE = refcodec.enc_table(_DEC_TABLE)

HARNESSES += [
    ('encode Decimals under a 3-digit thread context || decode Decimals '
     'under a 2-digit ROUND_UP thread context', [
         _call('field_table(decimals), prec=3', _narrow(
             lambda p: p.encode.field_table(_DEC_TABLE).hex(), prec=3)),
         _call('decode.field_table(decimals), prec=2', _narrow(
             lambda p: c16events.c(p.decode.field_table(_DEC_WIRE)), prec=2,
             rounding='ROUND_UP'))], 1, 2,
     {'custom': {0: lambda r: r == _DEC_WIRE.hex(),
                 1: lambda r: r == c16events.c((len(_DEC_WIRE),
                                                _DEC_TABLE))}}),
    ('marshal a header with Decimals under a 1-digit thread context || '
     'unmarshal it under a 4-digit one', [
         _call('marshal header(decimals), prec=1', _narrow(
             lambda p: p.frame.marshal(p.header.ContentHeader(
                 0, 1, p.commands.Basic.Properties(headers=_DEC_TABLE)),
                 1).hex(), prec=1)),
         _call('unmarshal Queue.Declare(decimals), prec=4', _narrow(
             lambda p: _view(p.frame.unmarshal(refcodec.enc_method_frame(
                 spec_table.BY_NAME['Queue.Declare'],
                 (0, 'q', False, False, False, False, False, _DEC_TABLE),
                 1)[0])), prec=4))], 1, 2),
]


# a bounded cache of capacity R that is FULL when the threads start, its
# oldest entries being exactly the names thread 0 is about to use (served
# from the cache) while thread 1 brings names never seen before (each one
# evicts the oldest entry): the stated limit "caches beyond 140 names" moved
# to 4096 for this one pattern
_RING_A = ['ring-a-%02d' % i for i in range(24)]
_RING_TABLE_A = {n: i for i, n in enumerate(_RING_A)}
_RING_WIRE_A = refcodec.enc_table(_RING_TABLE_A)
_RING_RUN = itertools.count()


def _ring_setup(capacity):
    def setup():
        reset_switch()
        p = lib.pamqp()
        for n in _RING_A:
            p.encode.short_string(n)
        p.encode.field_table(_RING_TABLE_A)
        p.decode.field_table(_RING_WIRE_A)
        fill = ['ring-f-%04d' % i for i in range(capacity - len(_RING_A))]
        for n in fill:
            p.encode.short_string(n)
        table = {n: 0 for n in fill}
        p.decode.field_table(p.encode.field_table(table))
    return setup


def _ring_a(p):
    return [p.encode.field_table(_RING_TABLE_A).hex(),
            [p.encode.short_string(n).hex() for n in _RING_A[:6]],
            c16events.c(p.decode.field_table(_RING_WIRE_A))]


def _ring_b(p):
    run = next(_RING_RUN)
    names = ['ring-b-%07d-%02d' % (run, i) for i in range(len(_RING_A))]
    for n in names[:6]:
        p.encode.short_string(n)
    wire = p.encode.field_table({n: 1 for n in names})
    p.decode.field_table(wire)
    return 'done'


HARNESSES += [
    ('cached names of a full cache of %d || as many never-seen names' % cap, [
        _call('encode / decode %d cached names' % len(_RING_A), _ring_a),
        _call('encode / decode %d new names' % len(_RING_A), _ring_b)],
     1, 1, {'cold': False, 'setup': _ring_setup(cap)})
    for cap in (64, 128, 256, 512, 1024, 2048, 4096)]


def _refused(func):
    def run(p):
        try:
            return func(p)
        except Exception as exc:  # noqa
            return ['raised', type(exc).__name__]
    return run


# pairs of the same kind of call on different data (a buffer or a context
# shared by every call of that kind), one of them possibly refused
HARNESSES += [
    ('body encode ch 1 || body encode ch 2', [
        _call('marshal ContentBody ch 1', lambda p: p.frame.marshal(
            p.body.ContentBody(b'A' * 37 + b'\xce'), 1).hex()),
        _call('marshal ContentBody ch 2', lambda p: p.frame.marshal(
            p.body.ContentBody(b'payload of the other thread'), 2).hex())],
     2, 3),
    ('refused Decimal encode || Decimal encode', [
        _call('field_table(Decimal of 12 digits)', _refused(
            lambda p: p.encode.field_table(
                {'d': A.D('123456789012.5'), 'e': A.D('1E+30')}).hex())),
        _call('field_table(Decimals)', _refused(
            lambda p: p.encode.field_table(_DEC_TABLE).hex()))], 2, 3,
     {'custom': {1: lambda r: r == _DEC_WIRE.hex()}}),
    ('refused Decimal encode || Decimal decode', [
        _call('encode.decimal(1E+999999999)', _refused(
            lambda p: p.encode.decimal(A.D('1E+999999999')).hex())),
        _call('decode.field_table(decimals)', _refused(
            lambda p: c16events.c(p.decode.field_table(_DEC_WIRE))))], 1, 2),
]

# the same header decoded again while another thread is between two looks at
# whatever the library remembers about the last one (A-B-A)
HARNESSES += [
    ('decode Ack ch 1 || decode Ack ch 2 ; decode Ack ch 1', [
        _call('unmarshal Basic.Ack ch 1',
              lambda p: _view(p.frame.unmarshal(ACK))),
        _seq(_call('unmarshal Basic.Ack ch 2',
                   lambda p: _view(p.frame.unmarshal(ACK2))),
             _call('unmarshal Basic.Ack ch 1',
                   lambda p: _view(p.frame.unmarshal(ACK))))], 2, 3),
    ('decode Ack ch 1 || decode Ack ch 2 || decode Ack ch 1 (3 threads)', [
        _call('unmarshal Basic.Ack ch 1',
              lambda p: _view(p.frame.unmarshal(ACK))),
        _call('unmarshal Basic.Ack ch 2',
              lambda p: _view(p.frame.unmarshal(ACK2))),
        _call('unmarshal Basic.Ack ch 1 again',
              lambda p: _view(p.frame.unmarshal(ACK)))], None, 2),
    ('peek ch 1 || peek ch 2 || peek ch 1 (3 threads)', [
        _call('frame_parts(ACK)', lambda p: list(p.frame.frame_parts(ACK))),
        _call('frame_parts(ACK2)', lambda p: list(p.frame.frame_parts(ACK2))),
        _call('frame_parts(ACK) again',
              lambda p: list(p.frame.frame_parts(ACK)))], 3, 4),
    ('peek ch 1 ; decode || peek ch 2 ; decode ; peek ch 1', [
        _seq(_call('frame_parts(ACK)',
                   lambda p: list(p.frame.frame_parts(ACK))),
             _call('unmarshal Basic.Ack ch 1',
                   lambda p: _view(p.frame.unmarshal(ACK)))),
        _seq(_call('frame_parts(ACK2)',
                   lambda p: list(p.frame.frame_parts(ACK2))),
             _call('unmarshal Basic.Ack ch 2',
                   lambda p: _view(p.frame.unmarshal(ACK2))),
             _call('frame_parts(ACK)',
                   lambda p: list(p.frame.frame_parts(ACK))))], 2, 3),
]


def reset_switch():
    lib.pamqp().encode.support_deprecated_rabbitmq(False)


def cold_start():
    libstate.fresh_import()
    logging.disable(logging.CRITICAL)


def explore_schedules(ctx, h, shard, bound, cold=False):
    name, bodies = HARNESSES[h][:2]
    opts = HARNESSES[h][4] if len(HARNESSES[h]) > 4 else {}
    judged = opts.get('judged', list(range(len(bodies))))
    custom = opts.get('custom', {})
    if cold:
        name += ' [cold library]'
    h_setup = opts.get('setup', reset_switch)
    h_teardown = opts.get('teardown', reset_switch)
    reset_switch()
    logging.disable(logging.CRITICAL)
    sequential = []
    for b in bodies:
        if cold:
            cold_start()
        h_setup()
        try:
            sequential.append(b())
        except Exception as exc:  # noqa - as a thread would record it
            sequential.append(['raised', type(exc).__name__])
        finally:
            h_teardown()
    reset_switch()
    # an optional probe of process state, taken after the threads are done
    # and BEFORE the environment of the harness is taken down
    probe = opts.get('probe')
    probed = {}
    want_probe = None
    if probe:
        h_setup()
        try:
            for b in bodies:
                b()
            want_probe = probe(lib.pamqp())
        finally:
            h_teardown()

    def teardown_with_probe():
        try:
            if probe:
                probed['got'] = probe(lib.pamqp())
        finally:
            h_teardown()
    runner = sched.Runner(bodies, setup=cold_start if cold else h_setup,
                          teardown=teardown_with_probe,
                          fine=bool(opts.get('fine')))
    if not cold:
        # warm library: let caches settle (first / second sighting) so that
        # every execution of the exploration starts from the same state
        for _ in range(3):
            runner.run([])
    witness = h == WITNESS
    seen_outcomes = set()

    last = []

    def check(x):
        if x.choices.count(0) != len(x.choices):
            last[:] = [list(x.choices), dict(x.results)]
        pre = x.preemptions_before(len(x.points))
        ctx.case(('cold' if cold else 'sched', h, tuple(x.choices)),
                 pre >= 1,
                 sample=lambda: {'harness': name, 'choices': [
                     i for i, c in enumerate(x.choices) if c],
                     'points': len(x.points), 'preemptions': pre})
        ctx.calls(len(x.points))
        ctx.valid()
        results = [x.results.get(t) for t in range(len(bodies))]
        if witness:
            enc = results[1]
            first = bytes.fromhex(enc)[4:5]
            rest = bytes.fromhex(enc)
            second = rest[9:10] if first == b'I' else rest[7:8]
            outcome = (first + second).decode()
            seen_outcomes.add(outcome)
            ctx.outcome('witness:' + outcome)
            if outcome not in ('uu', 'uI', 'II'):
                ctx.violation('witness|' + outcome, 'witness harness: '
                              'outcome {} is impossible (the switch went '
                              'back)'.format(outcome),
                              {'kind': 'sched', 'h': h,
                               'choices': list(x.choices)}, 'uu|uI|II',
                              outcome)
            return
        if [results[t] for t in judged] != [sequential[t] for t in judged] \
                or not all(f(results[t]) for t, f in custom.items()):
            ctx.outcome('schedule-dependent')
            ctx.violation('sched|{}|{}'.format(h, [i for i, c in
                                                   enumerate(x.choices)
                                                   if c]),
                          'harness "{}": under the schedule with switches at '
                          'points {} the threads returned {} instead of the '
                          'sequential {}'.format(
                              name, [(i, c) for i, c in
                                     enumerate(x.choices) if c],
                              short(results, 300), short(sequential, 300)),
                          {'kind': 'sched', 'h': h, 'cold': cold,
                           'choices': list(x.choices)},
                          short(sequential, 400), short(results, 400))
        elif probe and probed.get('got') != want_probe:
            ctx.outcome('schedule-left-state-behind')
            ctx.violation('sched-probe|{}|{}'.format(h, [
                i for i, c in enumerate(x.choices) if c]),
                'harness "{}": after the schedule with switches at points {} '
                'the process is left in another state than after the same '
                'calls made sequentially: {} instead of {}'.format(
                    name, [(i, c) for i, c in enumerate(x.choices) if c],
                    short(probed.get('got'), 200), short(want_probe, 200)),
                {'kind': 'sched', 'h': h, 'cold': cold,
                 'choices': list(x.choices)}, short(want_probe, 300),
                short(probed.get('got'), 300))
        else:
            ctx.outcome('ok')
            # post-probe: the same calls made one after the other once the
            # threads are done must give what they gave before any thread
            # ran (a verdict or buffer left behind by the race shows here)
            after = []
            for b in bodies:
                h_setup()
                try:
                    after.append(b())
                finally:
                    h_teardown()
            reset_switch()
            if [after[t] for t in judged] != [sequential[t] for t in judged]:
                ctx.outcome('schedule-left-state-behind')
                ctx.violation('sched-after|{}|{}'.format(h, [
                    i for i, c in enumerate(x.choices) if c]),
                    'harness "{}": after the schedule with switches at '
                    'points {} had finished, the same calls made '
                    'sequentially gave {} instead of {}'.format(
                        name, [(i, c) for i, c in enumerate(x.choices)
                               if c], short(after, 300),
                        short(sequential, 300)),
                    {'kind': 'sched', 'h': h, 'cold': cold,
                     'choices': list(x.choices)},
                    short(sequential, 400), short(after, 400))

    try:
        stats = sched.explore(runner, bound, check, shard=shard)
    except sched.Divergence as exc:
        if 'deadlock' not in str(exc):
            raise
        # every live thread waits for a lock of the library: the calls
        # never return under this schedule
        ctx.outcome('deadlock')
        ctx.violation('sched-deadlock|{}'.format(h),
                      'harness "{}": {} (schedule with switches at points '
                      '{})'.format(name, exc, [
                          (i, c) for i, c in enumerate(runner.ex.choices)
                          if c]),
                      {'kind': 'sched', 'h': h, 'cold': cold,
                       'choices': list(runner.ex.choices)},
                      'every call returns', 'deadlock')
        runner.close()
        return seen_outcomes
    if runner.locks:
        ctx.count('library_locks_made_scheduler_aware', len(runner.locks))
    ctx.count('schedules', stats['executions'])
    if stats['diverged']:
        ctx.count('schedule_replays_that_diverged', stats['diverged'])
        ctx.cap('harness "%s": %d schedule replays met other scheduling '
                'points than planned (the library keeps state between '
                'executions); their results were judged but their subtrees '
                'were not expanded' % (name, stats['diverged']))
    ctx.count('schedules_with_preemption', stats['with_preemption'])
    ctx.peak('scheduling_points_per_execution', stats['max_points'])
    # engine self-test: one explored schedule replayed twice is identical
    if last:
        a = runner.run(last[0])
        b = runner.run(last[0])
        if a.results != b.results or a.results != last[1]:
            if not (a.diverged or b.diverged):
                ctx.violation('sched-replay|{}'.format(h),
                              'harness "{}": the same schedule {} gave {} '
                              'when explored, then {} and {} when replayed'
                              .format(name, [i for i, c in enumerate(last[0])
                                             if c], short(last[1], 200),
                                      short(a.results, 200),
                                      short(b.results, 200)),
                              {'kind': 'sched', 'h': h, 'cold': cold,
                               'choices': list(last[0])},
                              'same results', 'different results')
        elif a.choices != b.choices or a.choices != last[0]:
            ctx.count('self_test_replays_with_other_points')
    runner.close()
    return seen_outcomes


def run(task, ctx):
    kind = task[0]
    try:
        if kind == 'bfs':
            explore_bfs(ctx)
        elif kind == 'hist':
            explore_histories(ctx, task[1], task[2])
        elif kind == 'hist3':
            explore_core3(ctx, task[1])
        elif kind == 'reentrant':
            reentry.explore(ctx, task[1])
        elif kind == 'soak':
            soak(ctx, task[1])
        elif kind == 'preimport':
            preimport(ctx, task[1])
        elif kind == 'envvars':
            envvars(ctx)
        elif kind == 'cold':
            explore_schedules(ctx, task[1], (task[2], COLD_SHARDS), task[3],
                              cold=True)
        else:
            explore_schedules(ctx, task[1], (task[2], SHARDS), task[3])
    finally:
        lib.pamqp().encode.support_deprecated_rabbitmq(False)


def finish(merged, tier, seed):
    w = sorted(k for k in merged.outcomes if k.startswith('witness:'))
    extra = {'witness_outcomes': w}
    if len(w) < 2 and not merged.violations:
        merged.violations.append({
            'fingerprint': 'witness|vacuous',
            'message': 'the witness harness produced only %s: the scheduler '
            'does not interleave' % w, 'case': {'kind': 'bfs'},
            'expected': '>= 2 outcomes', 'observed': w})
        merged.nviolations += 1
    return extra


def replay(case, ctx):
    baselines()
    if case['kind'] == 'envvars':
        envvars(ctx)
    elif case['kind'] == 'preimport':
        preimport(ctx, case['which'])
    elif case['kind'] == 'soak':
        soak(ctx, case['soak'])
    elif case['kind'] == 'reentrant':
        reentry.explore(ctx, case['outer'])
    elif case['kind'] == 'hist':
        _run_history_here(ctx, tuple(case['hist']))
    elif case['kind'] == 'sched':
        h = case['h']
        name, bodies = HARNESSES[h][:2]
        seq = []
        for b in bodies:
            reset_switch()
            seq.append(b())
        cold = bool(case.get('cold'))
        if cold:
            seq = []
            for b in bodies:
                cold_start()
                seq.append(b())
        runner = sched.Runner(bodies,
                              setup=cold_start if cold else reset_switch,
                              teardown=reset_switch)
        x = runner.run(case['choices'])
        results = [x.results.get(t) for t in range(len(bodies))]
        opts = HARNESSES[h][4] if len(HARNESSES[h]) > 4 else {}
        judged = opts.get('judged', list(range(len(bodies))))
        if h != WITNESS and (
                [results[t] for t in judged] != [seq[t] for t in judged] or
                not all(f(results[t]) for t, f in
                        opts.get('custom', {}).items())):
            ctx.violation('sched|replay', 'harness "{}" schedule {}: {} '
                          'instead of {}'.format(name, case['choices'],
                                                 short(results, 300),
                                                 short(seq, 300)), case,
                          short(seq, 400), short(results, 400))
        elif h != WITNESS:
            after = []
            for b in bodies:
                reset_switch()
                after.append(b())
            if [after[t] for t in judged] != [seq[t] for t in judged]:
                ctx.violation('sched-after|replay', 'harness "{}" schedule '
                              '{}: afterwards the calls give {} instead of '
                              '{}'.format(name, case['choices'],
                                          short(after, 300), short(seq, 300)),
                              case, short(seq, 400), short(after, 400))
    else:
        explore_bfs(ctx)
    reset_switch()
