"""Canonical deep snapshot of pamqp's library state (E2 state hashing).

Covers every global of every pamqp module, every attribute of every class
defined there, and every function's defaults, keyword defaults, code and
closure cells.  Addresses never enter the hash; container contents do.
Also returns the ids of all mutable containers reachable from the library,
for the aliasing oracle of C16.
"""
import hashlib
import re
import struct
import sys
import types


def fresh_import():
    """Drop every pamqp module and import the package again from disk."""
    import importlib
    for name in [n for n in sys.modules if n == 'pamqp' or
                 n.startswith('pamqp.')]:
        del sys.modules[name]
    from mc import lib
    lib._P = None
    importlib.invalidate_caches()
    return lib.pamqp()


def pamqp_modules():
    return sorted((n, m) for n, m in sys.modules.items()
                  if (n == 'pamqp' or n.startswith('pamqp.')) and
                  m is not None)


class Snap:
    def __init__(self):
        self.h = hashlib.sha256()
        self.ids = set()          # mutable containers reachable
        self.seen = set()
        self.nodes = 0

    def put(self, *parts):
        for p in parts:
            self.h.update(p.encode('utf-8', 'backslashreplace')
                          if isinstance(p, str) else p)
            self.h.update(b'\x1f')

    def value(self, v, depth=0):
        self.nodes += 1
        t = type(v)
        if v is None or t in (bool, int, float, complex):
            self.put(t.__name__, repr(v))
        elif t is str:
            self.put('str', v)
        elif t in (bytes,):
            self.put('bytes', v)
        elif t is bytearray:
            self.ids.add(id(v))
            self.put('bytearray', bytes(v))
        elif t in (list, tuple):
            if t is list:
                self.ids.add(id(v))
            self.put(t.__name__, str(len(v)))
            if id(v) in self.seen or depth > 12:
                self.put('<seen>')
                return
            self.seen.add(id(v))
            for x in v:
                self.value(x, depth + 1)
        elif t in (dict, types.MappingProxyType):
            if t is dict:
                self.ids.add(id(v))
            self.put('dict', str(len(v)))
            if id(v) in self.seen or depth > 12:
                self.put('<seen>')
                return
            self.seen.add(id(v))
            for k in v:          # insertion order is part of the state
                self.value(k, depth + 1)
                self.value(v[k], depth + 1)
        elif t in (set, frozenset):
            if t is set:
                self.ids.add(id(v))
            self.put(t.__name__, repr(sorted(map(repr, v))))
        elif isinstance(v, types.FunctionType):
            self.function(v, depth)
        elif isinstance(v, (classmethod, staticmethod)):
            self.put(t.__name__)
            self.value(v.__func__, depth + 1)
        elif isinstance(v, property):
            self.put('property')
            for f in (v.fget, v.fset, v.fdel):
                self.value(f, depth + 1)
        elif isinstance(v, type):
            self.klass(v, depth)
        elif isinstance(v, types.ModuleType):
            self.put('module', v.__name__)
        elif isinstance(v, struct.Struct):
            self.put('Struct', v.format)
        elif isinstance(v, re.Pattern):
            self.put('Pattern', v.pattern, str(v.flags))
        elif isinstance(v, types.CodeType):
            self.code(v)
        elif isinstance(v, (types.BuiltinFunctionType,
                            types.MethodDescriptorType,
                            types.WrapperDescriptorType,
                            types.GetSetDescriptorType,
                            types.MemberDescriptorType)):
            self.put('builtin', getattr(v, '__qualname__', repr(t)))
        else:
            mod = getattr(t, '__module__', '')
            name = getattr(t, '__qualname__', t.__name__)
            if mod.startswith('pamqp'):
                # an instance of a library class held by the library
                self.put('instance', mod, name)
                self.ids.add(id(v))
                if id(v) in self.seen:
                    return
                self.seen.add(id(v))
                for a in sorted(set(getattr(v, '__dict__', {})) |
                                set(getattr(t, '__slots__', []) or [])):
                    if hasattr(v, a):
                        self.put('attr', a)
                        self.value(getattr(v, a), depth + 1)
            elif mod == 'logging':
                self.put('logger', getattr(v, 'name', ''))
            elif mod in ('typing', 'types', 'collections.abc', 'abc'):
                self.put('typing', re.sub(r'0x[0-9a-f]+', '', repr(v)))
            else:
                self.put('other', mod, name,
                         re.sub(r'0x[0-9a-f]+', '', repr(v))[:200])

    def code(self, c):
        self.put('code', c.co_name, c.co_code, repr(c.co_names),
                 repr(c.co_varnames), str(c.co_argcount))
        for const in c.co_consts:
            if isinstance(const, types.CodeType):
                self.code(const)
            else:
                self.put(re.sub(r'0x[0-9a-f]+', '', repr(const)))

    def function(self, f, depth):
        self.put('function', f.__module__ or '', f.__qualname__)
        if id(f) in self.seen:
            return
        self.seen.add(id(f))
        self.code(f.__code__)
        self.put('defaults')
        self.value(f.__defaults__, depth + 1)
        self.value(f.__kwdefaults__, depth + 1)
        if f.__closure__:
            for cell in f.__closure__:
                try:
                    self.value(cell.cell_contents, depth + 1)
                except ValueError:
                    self.put('<empty cell>')
        if f.__dict__:
            self.value(dict(f.__dict__), depth + 1)

    def klass(self, c, depth):
        mod = getattr(c, '__module__', '') or ''
        self.put('class', mod, c.__qualname__)
        if not mod.startswith('pamqp') or id(c) in self.seen or depth > 12:
            return
        self.seen.add(id(c))
        self.put('bases', repr([b.__qualname__ for b in c.__bases__]))
        for name in sorted(vars(c)):
            if name in ('__dict__', '__weakref__', '__module__',
                        '__doc__', '__qualname__', '__firstlineno__',
                        '__static_attributes__',
                        # interpreter bookkeeping, not library state:
                        # copyreg caches the slot names of a class here
                        '__slotnames__'):
                continue
            self.put('cattr', name)
            self.value(vars(c)[name], depth + 1)


def snapshot():
    """(sha256 hex, set of ids of mutable containers in the library)."""
    s = Snap()
    for name, mod in pamqp_modules():
        s.put('MODULE', name)
        for gname in sorted(vars(mod)):
            if gname in ('__builtins__', '__cached__', '__file__',
                         '__loader__', '__spec__', '__path__', '__doc__',
                         # the warnings module records here which warnings
                         # were already shown from this module
                         '__warningregistry__'):
                continue
            s.put('global', gname)
            s.value(vars(mod)[gname])
    return s.h.hexdigest(), s.ids, s.nodes
