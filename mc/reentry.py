"""Same-thread re-entrancy exploration for C16.

While pamqp encodes, it runs code that belongs to the application at a
number of points: the handler of the logging record it emits when it
truncates a long field name, and the methods of application objects it is
given (`items()` of a dict subclass, `__iter__` of a list subclass, the
comparison operators of an int subclass, `encode()` of a str subclass,
`utcoffset()` of a tzinfo).  That code may call pamqp again - a log handler
that ships records over AMQP is the textbook case.  Both calls are codec
calls on one thread; each must give the result it gives alone.

Every OUTER call below reaches such points; at the k-th time a point is
reached (every k) an INNER call from a menu runs nested inside it.  Oracle:
the outer result equals the outer result with an inert hook, the inner result
equals the inner call alone.  A refusal of a hook-bearing argument (the
library need not accept subclasses) is simply the baseline and compared like
any other result.
"""
import collections
import datetime
import json
import logging

from mc import c16events, lib, refcodec

M = c16events.M
UTC = datetime.timezone.utc
BUF_QD = c16events.BUF_QD
BUF_HDR = c16events.BUF_HDR


class Hook:
    """Counts how often application code is reached; runs `inner` the k-th
    time (k = fire_at), never re-entering itself."""

    def __init__(self):
        self.count = 0
        self.fire_at = None
        self.inner = None
        self.result = None
        self.busy = False
        self.capture_at = None      # deferred mode: copy the context here
        self.captured = None

    def reached(self):
        n = self.count
        self.count += 1
        if n == self.capture_at:
            import contextvars
            self.captured = contextvars.copy_context()
        if self.inner is not None and n == self.fire_at and not self.busy:
            self.busy = True
            try:
                self.result = self.inner()
            except Exception as exc:  # noqa
                self.result = ['raised', type(exc).__name__]
            finally:
                self.busy = False


HOOK = Hook()


class HookDict(dict):
    def items(self):
        HOOK.reached()
        return super().items()


class HookList(list):
    def __iter__(self):
        HOOK.reached()
        for x in list.__iter__(self):
            yield x
            HOOK.reached()


class HookInt(int):
    def __le__(self, other):
        HOOK.reached()
        return int.__le__(self, other)

    def __ge__(self, other):
        HOOK.reached()
        return int.__ge__(self, other)

    def __lt__(self, other):
        HOOK.reached()
        return int.__lt__(self, other)

    def __gt__(self, other):
        HOOK.reached()
        return int.__gt__(self, other)


class HookStr(str):
    def encode(self, *args, **kwargs):
        HOOK.reached()
        return str.encode(self, *args, **kwargs)


class HookTz(datetime.tzinfo):
    def utcoffset(self, dt):
        HOOK.reached()
        return datetime.timedelta(hours=2)

    def dst(self, dt):
        return datetime.timedelta(0)

    def tzname(self, dt):
        return 'hook'


class HookHandler(logging.Handler):
    def emit(self, record):
        HOOK.reached()


LONG = 'k' * 140
LONG2 = 'm' * 129
KEPT = []       # objects an outer call encoded, kept alive for deferred work


def _encode_again(p, obj):
    if isinstance(obj, dict):
        return p.encode.field_table(obj).hex()
    return p.frame.marshal(obj, 3).hex()


def outers(p):
    """(label, callable) - calls that reach application code mid-encode."""
    def header_long_key():
        headers = {'a': 1, LONG: 'v', LONG2: [1], 'z': 'last',
                   'n': {'deep': {LONG2 + 'y': 1}}}
        obj = p.header.ContentHeader(
            0, 9, p.commands.Basic.Properties(
                content_type='text/plain', content_encoding='gzip',
                headers=headers, delivery_mode=2, message_id='outer-id'))
        KEPT.extend([obj, headers, headers['n']])
        return p.frame.marshal(obj, 3).hex()

    def declare_long_key():
        return p.frame.marshal(p.commands.Queue.Declare(
            queue='outer-queue', durable=True, arguments={
                'first': 40000, LONG: {'in': LONG2 + 'x'}, 'zz': 'last'}),
            5).hex()

    def declare_hook_dict():
        return p.frame.marshal(p.commands.Queue.Declare(
            queue='outer-queue', exclusive=True, arguments=HookDict(
                a=1, n=HookDict(x='y'), z='last')), 5).hex()

    def table_hook_list():
        return p.encode.field_table({'a': 'first', 'l': HookList(
            [1, 'two', HookList([3]), {'k': 4}]), 'z': 'last'}).hex()

    def table_hook_int():
        return p.encode.field_table({'a': 'first', 'i': HookInt(40000),
                                     'j': [HookInt(3000000000)],
                                     'z': 'last'}).hex()

    def publish_hook_str():
        return p.frame.marshal(p.commands.Basic.Publish(
            exchange='ex', routing_key=HookStr('outer.key'),
            mandatory=True), 7).hex()

    def header_hook_tz():
        stamp = datetime.datetime(2021, 5, 6, 7, 8, 9, tzinfo=HookTz())
        return p.frame.marshal(p.header.ContentHeader(
            0, 1, p.commands.Basic.Properties(
                app_id='outer', timestamp=stamp,
                headers={'t': stamp, 'z': 'last'})), 2).hex()

    def array_hook_str():
        return p.encode.field_array(['first', HookStr('élan'),
                                     {'k': HookStr('v')}, 'last']).hex()

    def view(out):
        consumed, ch, obj = out
        return [consumed, ch, repr(lib.frame_summary(obj))]

    def decode_declare():       # reaches application code only if the
        return view(p.frame.unmarshal(BUF_QD))      # decoder logs

    def decode_header():
        return view(p.frame.unmarshal(BUF_HDR))

    return [('marshal ContentHeader with over-long header names (log record)',
             header_long_key),
            ('unmarshal Queue.Declare', decode_declare),
            ('unmarshal ContentHeader', decode_header),
            ('marshal Queue.Declare with over-long argument names (log '
             'record)', declare_long_key),
            ('marshal Queue.Declare with a dict subclass', declare_hook_dict),
            ('field_table with a list subclass', table_hook_list),
            ('field_table with int subclasses', table_hook_int),
            ('marshal Basic.Publish with a str subclass', publish_hook_str),
            ('marshal ContentHeader with a tzinfo', header_hook_tz),
            ('field_array with str subclasses', array_hook_str)]


def inners(p):
    def view(out):
        consumed, ch, obj = out
        return [consumed, ch, repr(lib.frame_summary(obj))]
    return [
        ('marshal Basic.Publish', lambda: p.frame.marshal(
            p.commands.Basic.Publish(exchange='logs', routing_key='app.warn',
                                     immediate=True), 9).hex()),
        ('marshal ContentHeader', lambda: p.frame.marshal(
            p.header.ContentHeader(0, 77, p.commands.Basic.Properties(
                content_type='application/json', priority=4,
                headers={'level': 'WARNING', 'n': [1, 2]},
                app_id='inner')), 9).hex()),
        ('marshal Queue.Declare', lambda: p.frame.marshal(
            p.commands.Queue.Declare(queue='inner-queue', passive=True,
                                     arguments={'x-inner': [70000, 'v']}),
            9).hex()),
        ('field_table', lambda: p.encode.field_table(
            {'inner': {'deep': [1, 2, 3]}, 'b': True}).hex()),
        ('unmarshal Queue.Declare', lambda: view(p.frame.unmarshal(BUF_QD))),
        ('unmarshal ContentHeader', lambda: view(p.frame.unmarshal(BUF_HDR))),
        ('refused marshal', lambda: p.frame.marshal(p.commands.Queue.Declare(
            queue='q', arguments={'a': 1, 'bad': 2 ** 64}), 1).hex()),
        ('switch legacy on; encode integers; switch back',
         lambda: _with_switch(p, True)),
        ('switch legacy off; encode integers; switch back',
         lambda: _with_switch(p, False)),
        ('marshal ContentHeader with over-long header names', lambda:
         p.frame.marshal(p.header.ContentHeader(
             0, 1, p.commands.Basic.Properties(headers={LONG2: 1, 'a': 2})),
             4).hex()),
    ]


def _with_switch(p, legacy):
    """What an application does that talks to an old and a new broker from
    one thread: select the ladder, encode, put the switch back."""
    saved = p.encode.DEPRECATED_RABBITMQ_SUPPORT
    p.encode.support_deprecated_rabbitmq(legacy)
    try:
        return [p.encode.field_table({'a': 40000, 'b': [3000000000, 65535],
                                      'c': {'d': 2 ** 31}}).hex(),
                p.frame.marshal(p.commands.Queue.Declare(
                    queue='q', arguments={'n': 40000}), 2).hex()]
    finally:
        p.encode.support_deprecated_rabbitmq(saved)


def _run(call):
    try:
        return call()
    except Exception as exc:  # noqa
        return ['raised', type(exc).__name__]


def explore(ctx, outer_index):
    """Every (inner, k) for one outer call, with the legacy switch off and
    on."""
    p = lib.pamqp()
    try:
        for legacy in (False, True):
            p.encode.support_deprecated_rabbitmq(legacy)
            _explore(ctx, outer_index, legacy)
    finally:
        p.encode.support_deprecated_rabbitmq(False)


def _explore(ctx, outer_index, legacy):
    p = lib.pamqp()
    handler = HookHandler()
    root = logging.getLogger()
    saved_disable = logging.root.manager.disable
    saved_level = root.level
    root.addHandler(handler)
    root.setLevel(logging.DEBUG)     # whatever the library logs reaches us
    pamqp_levels = [(logging.getLogger(n), logging.getLogger(n).level)
                    for n in list(logging.root.manager.loggerDict)
                    if n == 'pamqp' or n.startswith('pamqp.')]
    for lg, _lvl in pamqp_levels:
        lg.setLevel(logging.DEBUG)
    logging.disable(logging.NOTSET)
    try:
        label, outer = outers(p)[outer_index]
        menu = inners(p)
        HOOK.inner, HOOK.fire_at, HOOK.count = None, None, 0
        base_outer = json.loads(json.dumps(_run(outer)))
        points = HOOK.count
        ctx.count('callback_points_reached', points)
        base_inner = []
        for _ilabel, inner in menu:
            HOOK.inner, HOOK.count = None, 0
            base_inner.append(json.loads(json.dumps(_run(inner))))
        for j, (ilabel, inner) in enumerate(menu):
            for k in range(points):
                HOOK.inner, HOOK.fire_at, HOOK.count = inner, k, 0
                HOOK.result = 'not reached'
                got_outer = json.loads(json.dumps(_run(outer)))
                got_inner = json.loads(json.dumps(HOOK.result))
                HOOK.inner = None
                ctx.case(('reentrant', outer_index, j, k, legacy), True,
                         sample=lambda: {'outer': label, 'inner': ilabel,
                                         'at_callback': k, 'of': points})
                ctx.calls(2)
                ctx.valid()
                bad = []
                if got_outer != base_outer:
                    bad.append('the outer call returned %s instead of %s' % (
                        _short(got_outer), _short(base_outer)))
                if got_inner != base_inner[j]:
                    bad.append('the nested call returned %s instead of %s' % (
                        _short(got_inner), _short(base_inner[j])))
                if bad:
                    ctx.outcome('reentrancy-dependent')
                    ctx.violation(
                        'reentrant|{}|{}|{}|{}'.format(outer_index, j, k, legacy),
                        '"{}" with "{}" running nested inside it, on the same '
                        'thread, at the {}-th of the {} points where it runs '
                        'application code: {}'.format(
                            label, ilabel, k + 1, points, '; '.join(bad)),
                        {'kind': 'reentrant', 'outer': outer_index},
                        _short(base_outer), _short(got_outer))
                else:
                    ctx.outcome('ok')
        # deferred work: at point k the application takes a copy of the
        # current context (what asyncio's call_soon / create_task / to_thread
        # do) and runs the other call LATER in that copy, when the outer call
        # has returned and its objects are gone - or still alive (KEPT)
        for k in range(points):
            HOOK.inner, HOOK.capture_at, HOOK.count = None, k, 0
            HOOK.captured = None
            del KEPT[:]
            _run(outer)
            HOOK.capture_at = None
            context = HOOK.captured
            if context is None:
                continue
            deferred = list(enumerate(menu)) + [
                (-1 - n, ('encode the very object the outer call encoded',
                          (lambda o=o: _encode_again(p, o))))
                for n, o in enumerate(list(KEPT))]
            for j, (ilabel, inner) in deferred:
                HOOK.count = 0
                got = json.loads(json.dumps(context.run(_run, inner)))
                if j >= 0:
                    want = base_inner[j]
                else:
                    HOOK.count = 0
                    want = json.loads(json.dumps(_run(inner)))
                ctx.case(('deferred', outer_index, j, k, legacy), True,
                         sample=lambda: {'outer': label,
                                         'deferred_in_copied_context': ilabel,
                                         'context_copied_at_callback': k})
                ctx.calls()
                ctx.valid()
                if got != want:
                    ctx.outcome('reentrancy-dependent')
                    ctx.violation(
                        'deferred|{}|{}|{}|{}'.format(outer_index, j, k, legacy),
                        '"{}": the application copied the context at the '
                        '{}-th point where the call runs its code and ran '
                        '"{}" in that copy after the call had returned: {} '
                        'instead of {}'.format(label, k + 1, ilabel,
                                               _short(got), _short(want)),
                        {'kind': 'reentrant', 'outer': outer_index},
                        _short(want), _short(got))
                else:
                    ctx.outcome('ok')
        del KEPT[:]
        # the library must be as before afterwards
        HOOK.inner, HOOK.count = None, 0
        after = json.loads(json.dumps(_run(outer)))
        if after != base_outer:
            ctx.violation('reentrant-after|{}|{}'.format(outer_index, legacy),
                          '"{}" gives {} after the nested runs, {} before'
                          .format(label, _short(after), _short(base_outer)),
                          {'kind': 'reentrant', 'outer': outer_index},
                          _short(base_outer), _short(after))
    finally:
        HOOK.inner = None
        logging.disable(saved_disable)
        for lg, lvl in pamqp_levels:
            lg.setLevel(lvl)
        root.setLevel(saved_level)
        root.removeHandler(handler)


def _short(v):
    s = repr(v)
    return s if len(s) <= 160 else s[:150] + '...(%d)' % len(s)


N_OUTERS = 10
