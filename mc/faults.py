"""E4 - fault enumerator: cuts, corruptions, structural field rewrites, small
byte strings inside valid envelopes, header-shape product.

All generators are deterministic and yield (label, bytes).
"""
import itertools
import struct

SHARP = (0x00, 0x01, 0x7f, 0x80, 0xff, 0xce)

TAGS = b'tbBsuIilLfdDSATFVx'          # 18 tags + 0x00 below = the 19
SMALL_ALPHABET = bytes(TAGS) + bytes([0x00, 0x01, 0x02, 0x04, 0x05, 0x7f,
                                      0x80, 0xff]) + b'Za'


def cut_points(data, fields, every=True, window=300, stride=251):
    """Cut offsets 0..len-1.  every=False: structural subset for big frames:
    first/last `window` bytes, every field boundary +-2, every stride-th."""
    n = len(data)
    if every or n <= 4096:
        return range(n)
    pts = set(range(min(window, n)))
    pts.update(range(max(0, n - window), n))
    for off, width, _k in fields:
        for p in range(off - 2, off + width + 3):
            if 0 <= p < n:
                pts.add(p)
    pts.update(range(0, n, stride))
    return sorted(pts)


def single_byte(data, positions=None, values=range(256)):
    """Every position x every other byte value."""
    buf = bytearray(data)
    for pos in (range(len(data)) if positions is None else positions):
        orig = buf[pos]
        for v in values:
            if v == orig:
                continue
            buf[pos] = v
            yield ('byte@%d=%02x' % (pos, v)), bytes(buf)
        buf[pos] = orig


def pairs(data, sharp=SHARP, positions=None):
    buf = bytearray(data)
    positions = list(range(len(data)) if positions is None else positions)
    for i, j in itertools.combinations(positions, 2):
        oi, oj = buf[i], buf[j]
        for a in sharp:
            if a == oi:
                continue
            buf[i] = a
            for b in sharp:
                if b == oj:
                    continue
                buf[j] = b
                yield ('bytes@%d=%02x,@%d=%02x' % (i, a, j, b)), bytes(buf)
            buf[j] = oj
        buf[i] = oi


def field_rewrites(data, fields, full16=True, vrange=None):
    """Every structural field rewritten over its equivalence classes:
    1-byte fields: all 256; 2-byte: all 65536 (or a sharp subset when
    full16=False); 4-byte lengths: 0..R+2 and 2^31-1, 2^31, 2^32-1 where R is
    the number of bytes after the field; 8-byte: sharp patterns."""
    n = len(data)
    for off, width, kind in fields:
        head, tail = data[:off], data[off + width:]
        orig = data[off:off + width]
        if width == 1:
            cand = (bytes([v]) for v in range(256))
        elif width == 2:
            if full16:
                lo, hi = vrange or (0, 65536)
                cand = (struct.pack('>H', v) for v in range(lo, hi))
            else:
                vals = sorted({0, 1, 2, 3, 255, 256, 257, 0x7fff, 0x8000,
                               0x8001, 0xfffe, 0xffff} |
                              {1 << b for b in range(16)} |
                              {(1 << b) | 1 for b in range(16)} |
                              {0xffff ^ (1 << b) for b in range(16)})
                cand = (struct.pack('>H', v) for v in vals)
        elif width == 4:
            rest = n - (off + 4)
            vals = list(range(0, rest + 3)) + [2**31 - 1, 2**31, 2**32 - 1,
                                               2**32 - 2]
            cand = (struct.pack('>I', v) for v in vals)
        elif width == 8:
            vals = [0, 1, 2**31, 2**32 - 1, 2**32, 2**63 - 1, 2**63,
                    2**64 - 1, 253402300800, 253402300800000]
            cand = (struct.pack('>Q', v) for v in vals)
        else:
            continue
        for c in cand:
            if c != orig:
                yield '%s@%d=%s' % (kind, off, c.hex()), head + c + tail


def strings_upto(alphabet, maxlen):
    for n in range(maxlen + 1):
        for tup in itertools.product(alphabet, repeat=n):
            yield bytes(tup)


def frame_wrap(frame_type, channel, payload):
    return bytes([frame_type]) + struct.pack('>HI', channel, len(payload)) + \
        payload + b'\xce'


def envelopes():
    """Four envelopes that place an arbitrary byte string s where the decoder
    expects: a table body, an array body (inside a table), a property list,
    a method argument list."""
    def table_body(s):
        # Queue.Declare: ticket, queue, bits, arguments table
        args = b'\x00\x00\x01q\x00' + struct.pack('>I', len(s)) + s
        return frame_wrap(1, 1, b'\x00\x32\x00\x0a' + args)

    def array_body(s):
        arr = b'A' + struct.pack('>I', len(s)) + s
        body = b'\x01k' + arr
        args = b'\x00\x00\x01q\x00' + struct.pack('>I', len(body)) + body
        return frame_wrap(1, 1, b'\x00\x32\x00\x0a' + args)

    def property_list(s):
        # all 14 flag bits set, s is the property data
        return frame_wrap(2, 1, b'\x00\x3c\x00\x00' + struct.pack('>Q', 1) +
                          b'\xff\xfc' + s)

    def method_args(s):
        # Exchange.Declare argument list = s
        return frame_wrap(1, 1, b'\x00\x28\x00\x0a' + s)

    def header_flags(s):
        # s is everything after the body size (flag words + properties)
        return frame_wrap(2, 1, b'\x00\x3c\x00\x00' + struct.pack('>Q', 1) + s)

    return [('table-body', table_body), ('array-body', array_body),
            ('property-list', property_list), ('method-args', method_args),
            ('header-flags', header_flags)]


def header_shapes(tier):
    """Frame-header shape product: type x channel x size class x payload x
    end octet x trailer."""
    types = range(256) if tier == 'thorough' else \
        [0, 1, 2, 3, 4, 7, 8, 9, 65, 127, 128, 206, 255]
    chans = [b'\x00\x00', b'\x00\x01', b'\xff\xff', b'\x80\x00',
             b'\x00\xce', b'\xce\x00']
    payloads = [b'', b'\x00', b'\x00\x3c\x00\x50' + b'\x00' * 9,
                b'\x00\x3c\x00\x00' + b'\x00' * 10, b'\xce',
                b'\x00\x5a\x00\x0a', b'AMQP\x00\x00\x09\x01']
    ends = [b'\xce', b'\x00', b'\xcf', b'']
    trailers = [b'', b'\xce', b'\x08\x00\x00\x00\x00\x00\x00\xce', b'AMQP']
    for t in types:
        for ch in chans:
            for pl in payloads:
                n = len(pl)
                for size in sorted(({0, 1, n - 1, n, n + 1, n + 2, 2**31,
                                     2**31 + n} |
                                    {2**32 - k for k in range(1, 10)}) -
                                   {-1}):
                    for end in ends:
                        for tr in trailers:
                            yield ('shape t=%d size=%d' % (t, size),
                                   bytes([t]) + ch +
                                   struct.pack('>I', size) + pl + end + tr)


def nested_short(max_depth):
    """Grammar-directed fault: at every nesting level a container declares
    fewer bytes than its content needs, so that the content runs past the
    declared end ("child overruns parent").  Yields (label, table body) for
    depth 1..max_depth and three container mixes; a decoder that resumes at
    the declared end re-reads what the child already read, which doubles the
    work per level."""
    for mix in ('FF', 'FA', 'AF'):
        for depth in range(1, max_depth + 1):
            if mix == 'FF':
                c = b'\x00V'
                for _ in range(depth):
                    c = (b'\x00F' + struct.pack('>I', 6) + b'\x00F' +
                         struct.pack('>I', len(c)) + c)
            elif mix == 'FA':
                # short table whose only entry is an array running past it
                c = b'V'
                for _ in range(depth):
                    inner = b'\x00A' + struct.pack('>I', len(c)) + c
                    c = b'F' + struct.pack('>I', 6) + inner
                c = b'\x00' + c
            else:
                # array element = short table holding a table that overruns
                c = b'\x00V'
                for _ in range(depth):
                    t = (b'F' + struct.pack('>I', 6) + b'\x00F' +
                         struct.pack('>I', len(c)) + c)
                    c = b'\x00A' + struct.pack('>I', len(t)) + t
            yield 'nested-short %s depth %d' % (mix, depth), c


def sibling_lies(n):
    """Grammar-directed fault with a RELATION between two length fields: a
    parent container holds n small sibling containers; inside each sibling one
    length field (of a string, a byte array, a nested table or a nested array)
    claims the bytes up to the end of the PARENT (or of all the data, or 2^31)
    instead of the two bytes it really has.  A decoder that honours the inner
    length against the whole remaining buffer, while the sibling's own length
    decides where the parent resumes, hands out n overlapping tails: output
    and memory quadratic in the input, with no container parsed twice.
    Yields (label, table body) - the body of the outermost table."""
    tail = b'\x04tailS\x00\x00\x00\x08' + b't' * 8
    for parent in 'FA':
        for child in 'FA':
            for elem in 'SxFA':
                for lie in ('parent-end', 'data-end', '2^31', 'next-sibling'):
                    # layout pass: children with a 4-byte placeholder
                    kids, lie_at = [], []
                    pos = 0
                    for i in range(n):
                        inner = elem.encode() + b'\x00\x00\x00\x00' + b'ab'
                        if child == 'F':
                            body = b'\x01s' + inner
                            lie_in_body = 3
                        else:
                            body = inner
                            lie_in_body = 1
                        kid = child.encode() + struct.pack('>I', len(body)) + \
                            body
                        if parent == 'F':
                            kid = bytes([5]) + b'%05d' % i + kid
                            head = 6
                        else:
                            head = 0
                        lie_at.append(pos + head + 5 + lie_in_body)
                        kids.append(kid)
                        pos += len(kid)
                    pbody = bytearray(b''.join(kids))
                    total = len(pbody)
                    for i, at in enumerate(lie_at):
                        after = at + 4
                        if lie == 'parent-end':
                            v = total - after
                        elif lie == 'data-end':
                            v = total - after + len(tail)
                        elif lie == '2^31':
                            v = 2 ** 31
                        else:
                            v = (lie_at[i + 1] - after) if i + 1 < n else 2
                        pbody[at:at + 4] = struct.pack('>I', v)
                    out = b'\x01p' + parent.encode() + \
                        struct.pack('>I', total) + bytes(pbody) + tail
                    yield ('sibling-lies n=%d parent=%s child=%s elem=%s '
                           'lie=%s' % (n, parent, child, elem, lie)), out


HOSTILE_TEXT = ['{}', '{0}', '{x}', 'x-{tenant}-ttl', '{0.__class__}', '{!r}',
                '{:>999999999}', '%s', '%(x)s', '%d%d', '%', '{', '}', '{{}}',
                '$x', '${x}', '\\', "'", '"', 'a\x00b', '\n', 'é{}',
                '%%', '{[0]}', '#{x}']


def hostile_names():
    """Peer-controlled TEXT that means something to Python's formatting
    machinery (str.format templates, %-templates, string.Template), as field
    names and string values around a failing element: whatever text a peer
    puts there must never be interpreted - an error message built from it
    must not raise something of its own.  Yields (label, table body)."""
    tags = bytes(range(256))
    for name in HOSTILE_TEXT:
        key = name.encode('utf-8')
        kb = bytes([len(key)]) + key
        sval = b'S' + struct.pack('>I', len(key)) + key
        for tag in tags:
            t = bytes([tag])
            # the failing (or odd) value sits under the hostile name ...
            yield 'hostile name %r tag %02x' % (name, tag), \
                kb + t + b'\x01\x02\x03\x04\x05\x06\x07\x08\x09'
            if tag in b'?ZbtV\x00\x80\xff':
                # ... bare, nested one level down, after a hostile string
                # value, and inside an array under the hostile name
                yield 'hostile name %r tag %02x bare' % (name, tag), kb + t
                inner = kb + t + b'\x01'
                yield 'hostile name %r tag %02x nested' % (name, tag), \
                    b'\x01nF' + struct.pack('>I', len(inner)) + inner
                yield 'hostile value %r then tag %02x' % (name, tag), \
                    b'\x01a' + sval + b'\x01z' + t + b'\x01'
                arr = sval + t + b'\x01'
                yield 'hostile name %r array with tag %02x' % (name, tag), \
                    kb + b'A' + struct.pack('>I', len(arr)) + arr


def shaped_nesting(max_depth):
    """VALID nested values in which every level holds, next to the deeper
    level, a sibling of another kind - before it or after it on the wire
    (a decoder that starts a container over when it meets some element, or
    decodes a child twice to find where it ends, pays once per level: 2^depth).
    Yields (label, table body) for depth 1..max_depth."""
    siblings = {
        'array': b'A\x00\x00\x00\x04b\x01b\x02',
        'empty array': b'A\x00\x00\x00\x00',
        'table': b'F\x00\x00\x00\x04\x01kb\x01',
        'empty table': b'F\x00\x00\x00\x00',
        'string': b'S\x00\x00\x00\x02hi',
        'bytes': b'x\x00\x00\x00\x02\x00\xce',
        'int': b'I\x00\x01\x11\x70',
        'bool': b't\x01',
        'decimal': b'D\x02\x00\x00\x01\x3a',
        'timestamp': b'T\x00\x00\x00\x00\x5f\x5e\x10\x00',
        'void': b'V',
        'double': b'd' + struct.pack('>d', 1.5),
    }
    for sname, sib in siblings.items():
        for order in ('sibling after the child', 'sibling before the child',
                      'siblings on both sides'):
            for container in ('table', 'array'):
                value = b'b\x07'            # innermost scalar
                for depth in range(1, max_depth + 1):
                    if container == 'table':
                        child = b'\x01c' + value
                        before = b'\x01a' + sib
                        after = b'\x01z' + sib
                    else:
                        child, before, after = value, sib, sib
                    body = {'sibling after the child': child + after,
                            'sibling before the child': before + child,
                            'siblings on both sides': before + child + after
                            }[order]
                    value = (b'F' if container == 'table' else b'A') + \
                        struct.pack('>I', len(body)) + body
                    if depth in (1, 2, 3, 4, 6, 8, 10, 12, 16, 20, 24, 28,
                                 32) and depth <= max_depth:
                        yield ('shaped nesting depth %d: %s, %s of %ss' % (
                            depth, sname, order, container)), b'\x01r' + value
