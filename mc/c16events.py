"""Event menu for C16: each event calls the public API and returns a
JSON-able canonical result.  Events that return library objects also hand
them to `keep` (aliasing oracle).  No event depends on anything but its own
arguments and the legacy switch."""
import struct

from mc import alphabets as A
from mc import faults, refcodec, spec_table
from mc.canon import canon

M = spec_table.BY_NAME


def c(v):
    return repr(canon(v))


def frame_view(obj):
    from mc import lib
    return repr(lib.frame_summary(obj))


# --- valid buffers (reference-encoded)
BUF_QD = refcodec.enc_method_frame(
    M['Queue.Declare'], (0, 'q', False, True, False, False, False,
                         {'a': [40000, {'b': 70000, 'y': bytearray(b'in')},
                                bytearray(b'el')], 'n': -1,
                          'x': bytearray(b'\x01\xce')}), 3)[0]
BUF_QD2 = refcodec.enc_method_frame(
    M['Queue.Declare'], (0, 'other', True, False, False, True, False,
                         {'z': ['x', [1.5]], 'k': None}), 4)[0]
BUF_QD_EMPTY = refcodec.enc_method_frame(
    M['Queue.Declare'], (0, '', False, False, False, False, False, {}), 1)[0]
BUF_PUB = refcodec.enc_method_frame(
    M['Basic.Publish'], (0, 'ex', 'rk', True, False), 2)[0]
BUF_HDR = refcodec.enc_header_frame(
    10, {'content_type': 'text/plain',
         'headers': {'h': [1, 2, bytearray(b'el')], 'x': 'y',
                     'blob': bytearray(b'\x00\xff'),
                     'n': {'deep': bytearray(b'd')}},
         'delivery_mode': 2, 'timestamp': A.dt(1600000000)}, 5)[0]
BUF_HDR_EMPTY = refcodec.enc_header_frame(0, {}, 5)[0]
# short flat tables (what a "hot table" cache would admit)
BUF_HDR_FLAT = refcodec.enc_header_frame(
    3, {'headers': {'retries': 0, 'k': 'v'}, 'app_id': 'a'}, 5)[0]
BUF_QD_FLAT = refcodec.enc_method_frame(
    M['Queue.Declare'], (0, 'flat', False, False, False, False, False,
                         {'n': 1, 's': 'x'}), 3)[0]
BUF_BODY = refcodec.enc_body_frame(b'payload\xce', 5)[0]
BUF_HB = refcodec.HEARTBEAT
BUF_PH = refcodec.enc_protocol_header(0, 9, 1)

# --- failing buffers
BAD_TRUNC = BUF_QD[:-5]
BAD_UTF8 = faults.frame_wrap(
    1, 1, b'\x00\x32\x00\x0a\x00\x00\x02\xff\xfe\x00\x00\x00\x00\x00')
BAD_TAG = BUF_QD.replace(b'\x01nb', b'\x01nZ')
BAD_ARRAY = faults.frame_wrap(
    1, 1, b'\x00\x32\x00\x0a\x00\x00\x01q\x00' + struct.pack('>I', 9) +
    b'\x01kA\x00\x00\x00\xffb\x01')
BAD_HEADER = (b'\x02\x00\x01\x00\x00\x00\x21\x00\x3c\x00\x00' + b'\x00' * 7 +
              b'\x09\xa0\x00\x0aevil/thing\x00\x00\x00\x04\x01k?\x00\xce')
ODD_FLAGS = b'\x02\x00\x05\x00\x00\x00\x10\x00\x3c\x00\x00' + b'\x00' * 7 + \
    b'\x00\x00\x01\x00\x00\xce'


def decode(p, buf):
    try:
        consumed, ch, obj = p.frame.unmarshal(buf)
        return obj, [consumed, ch, frame_view(obj)]
    except Exception as exc:  # noqa
        return None, ['raised', type(exc).__name__]


def ev_construct(path):
    def ev(p, keep):
        cls = p
        for part in path.split('.'):
            cls = getattr(cls, part)
        obj = cls()
        keep(obj)
        from mc import lib
        if lib.kind_of(obj).startswith('other'):
            return [path, c(dict(obj))]
        return [path, frame_view(obj)]
    return ev


def ev_marshal(build, channel=1):
    def ev(p, keep):
        obj = build(p)
        return p.frame.marshal(obj, channel).hex()
    return ev


def ev_unmarshal(buf):
    def ev(p, keep):
        obj, res = decode(p, buf)
        if obj is not None:
            keep(obj)
        return res
    return ev


def ev_toggle(arg):
    def ev(p, keep):
        if arg == '()':
            p.encode.support_deprecated_rabbitmq()
        else:
            p.encode.support_deprecated_rabbitmq(arg)
        return 'toggled'
    return ev


def ev_flag_encode(p, keep):
    return p.encode.field_table({'k': [40000, 3000000000, -1]}).hex()


def ev_bad_construct_name(p, keep):
    try:
        p.commands.Exchange.Declare(exchange='bad*name')
        return 'accepted'
    except ValueError:
        return 'ValueError'


def ev_bad_construct_mode(p, keep):
    try:
        p.commands.Basic.Properties(delivery_mode=7)
        return 'accepted'
    except ValueError:
        return 'ValueError'


def ev_env_decimal(prec):
    def ev(p, keep):
        import decimal
        if prec is None:
            decimal.setcontext(decimal.Context())
        elif prec == 'traps':
            decimal.getcontext().traps[decimal.Rounded] = True
            decimal.getcontext().traps[decimal.Inexact] = True
        else:
            decimal.getcontext().prec = prec
        return 'set'
    return ev


def ev_marshal_refused(p, keep):
    out = []
    for build in (lambda: p.commands.Connection.Tune(10, 2**32, 5),
                  lambda: p.commands.Queue.Bind(
                      queue='q', exchange='e', arguments={'k': object()}),
                  lambda: p.commands.Basic.Deliver('tag', 2**70)):
        try:
            out.append(p.frame.marshal(build(), 1).hex())
        except Exception as exc:  # noqa
            out.append(type(exc).__name__)
    return out


def ev_marshal_invalid(p, keep):
    obj = p.commands.Exchange.Declare(exchange='ok')
    obj.exchange = 'bad*name'
    out = []
    for _ in range(3):
        try:
            out.append(p.frame.marshal(obj, 1).hex())
        except ValueError:
            out.append('ValueError')
    obj.exchange = 'fine'
    out.append(p.frame.marshal(obj, 1).hex())
    return out


def mutate_all(obj, mark='m', depth=0):
    """Change, in place, every mutable member reachable from a returned
    object: dicts get a key, lists an element, byte arrays a tail (after
    the children were visited, so these additions are not revisited)."""
    if depth > 8 or obj is None:
        return
    if isinstance(obj, dict):
        for v in list(obj.values()):
            mutate_all(v, mark, depth + 1)
        obj['mutated-' + mark] = mark
    elif isinstance(obj, list):
        for v in list(obj):
            mutate_all(v, mark, depth + 1)
        obj.append('mutated-' + mark)
    elif isinstance(obj, bytearray):
        obj.extend(b'<' + mark.encode() + b'>')
        obj[0:1] = b'#'
    else:
        props = getattr(obj, 'properties', None)
        objs = [obj] if props is None or isinstance(props, (str, int)) \
            else [obj, props]
        for o in objs:
            try:
                names = list(type(o).attributes())
            except Exception:  # noqa
                continue
            for n in names:
                v = getattr(o, n, None)
                if isinstance(v, (dict, list, bytearray)):
                    mutate_all(v, mark, depth + 1)


# --- composite events: call, then mutate what was returned
def ev_mutate_default_arguments(p, keep):
    a = p.commands.Queue.Declare()
    a.arguments['injected'] = 1
    b = p.commands.Queue.Declare()
    keep(a), keep(b)
    return [c(b.arguments), a.arguments is b.arguments,
            p.frame.marshal(b, 1).hex()]


def ev_mutate_decoded_arguments(p, keep):
    a, _ = decode(p, BUF_QD)
    if a is None:
        return 'raised'
    a.arguments['injected'] = 1
    a.arguments['a'].append('appended')
    a.queue = 'changed'
    mutate_all(a)
    b, res = decode(p, BUF_QD)
    keep(a), keep(b)
    return [res, a.arguments is b.arguments,
            a.arguments['a'] is b.arguments['a'],
            a.arguments['x'] is b.arguments['x']]


def ev_mutate_decoded_properties(p, keep):
    a, _ = decode(p, BUF_HDR)
    if a is None:
        return 'raised'
    a.properties.headers['injected'] = 1
    a.properties.headers['h'].append(3)
    a.properties.content_type = 'mutated'
    a.properties.app_id = 'mutated'
    mutate_all(a)
    b, res = decode(p, BUF_HDR)
    d, res_empty = decode(p, BUF_HDR_EMPTY)
    keep(a), keep(b), keep(d)
    return [res, res_empty, a.properties is b.properties,
            a.properties.headers is b.properties.headers,
            b.properties is d.properties]


def ev_mutate_default_properties(p, keep):
    h1 = p.header.ContentHeader()
    h1.properties.app_id = 'mutated'
    h1.properties.headers = {'x': 1}
    h2 = p.header.ContentHeader()
    keep(h1), keep(h2)
    return [frame_view(h2), h1.properties is h2.properties,
            p.frame.marshal(h2, 1).hex()]


def ev_mutate_start_properties(p, keep):
    a = p.commands.Connection.Start()
    a.server_properties['product'] = 'x'
    b = p.commands.Connection.Start()
    d = p.commands.Connection.StartOk()
    keep(a), keep(b), keep(d)
    return [c(b.server_properties), c(d.client_properties),
            a.server_properties is b.server_properties]


def ev_mutate_decoded_array(p, keep):
    data = p.encode.field_array([1, [2, 3, bytearray(b'e')],
                                 {'k': [4], 'x': bytearray(b'v')},
                                 bytearray(b'top')])
    _n, a = p.decode.field_array(data)
    a.append('x')
    a[1].append('y')
    a[2]['k'].append('z')
    a[2]['new'] = 1
    mutate_all(a)
    _n, b = p.decode.field_array(data)
    tdata = p.encode.field_table({'x': bytearray(b'v'),
                                  'l': [bytearray(b'e'), {'d': bytearray()}]})
    _n, ta = p.decode.field_table(tdata)
    mutate_all(ta)
    _n, tb = p.decode.field_table(tdata)
    return [c(b), a is b, a[1] is b[1], a[2] is b[2], a[3] is b[3], c(tb),
            ta['x'] is tb['x']]


def ev_twice_identity(p, keep):
    a, ra = decode(p, BUF_QD_EMPTY)
    b, rb = decode(p, BUF_QD_EMPTY)
    x = p.commands.Basic.Consume()
    y = p.commands.Basic.Consume()
    keep(a), keep(b), keep(x), keep(y)
    return [ra == rb, a is b, a.arguments is b.arguments,
            x.arguments is y.arguments, a.arguments is x.arguments,
            c(a.arguments), c(x.arguments)]


BUF_HDR_PLAIN = refcodec.enc_header_frame(
    7, {'content_type': 'text/plain', 'delivery_mode': 1, 'app_id': 'one'},
    5)[0]
BUF_HDR_PLAIN2 = refcodec.enc_header_frame(
    9, {'content_type': 'application/json', 'priority': 4,
        'message_id': 'two'}, 6)[0]


def ev_keep_parts_drop_wholes(p, keep):
    """The consumer idiom: take out of a decoded frame what is needed (its
    properties, their headers, the arguments table), let the frame itself go,
    decode the next ones. What was kept must stay what it was, must not be
    handed out again, and the later frames must be what they always are."""
    import gc
    kept, out = [], []
    bufs = (BUF_HDR_PLAIN, BUF_HDR_PLAIN2, BUF_HDR_EMPTY, BUF_HDR_FLAT,
            BUF_HDR, BUF_QD_FLAT, BUF_QD, BUF_QD_EMPTY, BUF_PUB)
    for _round in range(3):
        for buf in bufs:
            obj, res = decode(p, buf)
            out.append(res)
            if obj is None:
                continue
            props = getattr(obj, 'properties', None)
            parts = [props, getattr(props, 'headers', None),
                     getattr(obj, 'arguments', None)]
            for part in parts:
                if part is not None:
                    view = dict(part) if props is part else part
                    kept.append((part, c(view)))
            del obj, props, parts, part
            gc.collect()
    changed = [i for i, (part, snap) in enumerate(kept)
               if c(dict(part) if not isinstance(part, (dict, list))
                    else part) != snap]
    handed_out_twice = len(kept) - len({id(part) for part, _s in kept})
    if changed or handed_out_twice:
        # the event's own invariant (it holds or not in a fresh interpreter
        # just the same, so the baseline comparison cannot see it)
        return ['BROKEN', '%d of the %d parts kept from decoded frames (their '
                'frames dropped) changed while later frames were decoded '
                '(first: part %s), %d objects were handed out more than once'
                % (len(changed), len(kept), changed[:1], handed_out_twice)]
    for part, _snap in kept:
        if not isinstance(part, dict) or not any(
                getattr(other, 'headers', None) is part
                for other, _s in kept):
            keep(part)      # headers are reachable through their properties
    return [out, changed, handed_out_twice]


BUF_DEEP32 = refcodec.enc_header_frame(
    2, {'headers': A.deep_table(31), 'app_id': 'deep'}, 4)[0]
BUF_QD_DEEP32 = refcodec.enc_method_frame(
    M['Queue.Declare'], (0, 'deep', False, False, False, False, False,
                         {'d': A.deep(31, 'alt')}), 2)[0]


def _stack_depth():
    import sys
    f, n = sys._getframe(), 0
    while f is not None:
        f, n = f.f_back, n + 1
    return n


def ev_decode_deep_in_the_stack(p, keep):
    """A decode called from deep inside the application's call stack (a
    recursive consumer, a framework with many layers): 40 frames of head
    room are left, far more than these frames need. What the library works
    out on such an occasion must not be what it goes by ever after."""
    import sys
    room = sys.getrecursionlimit() - _stack_depth() - 40

    def down(n):
        if n <= 0:
            return [decode(p, BUF_QD_FLAT)[1], decode(p, BUF_HDR_FLAT)[1]]
        return down(n - 1)
    try:
        return down(max(0, room))
    except RecursionError:
        return 'RecursionError'


def ev_decode_under_low_recursion_limit(p, keep):
    """... and the same with the interpreter's limit lowered for the call."""
    import sys
    old = sys.getrecursionlimit()
    sys.setrecursionlimit(_stack_depth() + 40)
    try:
        return [decode(p, BUF_QD_FLAT)[1], decode(p, BUF_HDR_FLAT)[1]]
    except RecursionError:
        return 'RecursionError'
    finally:
        sys.setrecursionlimit(old)


def _nested_arrays(depth):
    body = b''
    for _ in range(depth):
        body = b'A' + struct.pack('>I', len(body)) + body
    table = b'\x01k' + body
    args = b'\x00\x00\x01q\x00' + struct.pack('>I', len(table)) + table
    return faults.frame_wrap(1, 1, b'\x00\x32\x00\x0a' + args)


BUF_ABYSS = _nested_arrays(700)


def ev_many_over_deep_frames(p, keep):
    """A misbehaving peer sends 270 frames nested far deeper than any
    decoder takes (700 levels: beyond the interpreter's limit). However
    each is refused, it is over when the call returns."""
    seen = {}
    for _ in range(270):
        try:
            p.frame.unmarshal(BUF_ABYSS)
            kind = 'decoded'
        except RecursionError:
            kind = 'RecursionError'
        except Exception as exc:  # noqa
            kind = type(exc).__name__
        seen[kind] = seen.get(kind, 0) + 1
    return sorted(seen.items())


def ev_repeat_decode_mutate(p, keep):
    """The same header and method buffers decoded 130 times; after each
    decode the result is mutated in place: no later decode and no earlier
    result may change (caches admitted after N sightings, shallow copies).
    Every decode's view goes into a digest; the last three rounds in full."""
    import hashlib
    digest = hashlib.sha256()
    out = []
    held = []
    rounds = 130
    first = None
    for k in range(rounds):
        h, rh = decode(p, BUF_HDR)
        q, rq = decode(p, BUF_QD)
        hf, rhf = decode(p, BUF_HDR_FLAT)
        qf, rqf = decode(p, BUF_QD_FLAT)
        views = [rh, rq, rhf, rqf]
        if first is None:
            first = views
        elif views != first:
            # the event's own invariant: the same bytes decode to the same
            # frame however often they were decoded and whatever was done to
            # the earlier results
            return ['BROKEN', 'decode number %d of the same buffers gives %s '
                    'but the first gave %s' % (k + 1, views, first)]
        mutate_all(hf, str(k))
        mutate_all(qf, str(k))
        if k < 3 or k >= rounds - 3:
            keep(h), keep(q)
        full = k < 3 or k >= rounds - 3
        row = [rh, rq]
        row.append([[frame_view(oh) == wh, frame_view(oq) == wq]
                    for (oh, oq), (wh, wq) in held[-4:]])
        row.append(any(h.properties is o[0].properties or
                       h.properties.headers is o[0].properties.headers or
                       q.arguments is o[1].arguments
                       for o, _w in held[-8:]))
        digest.update(repr(row).encode())
        if full:
            out.append(row)
        h.properties.headers['mut%d' % k] = k
        h.properties.headers['h'].append(k)
        h.properties.content_type = 'mutated-%d' % k
        q.arguments['mut%d' % k] = k
        q.arguments['a'][1]['b'] = -k
        mutate_all(h, str(k))
        mutate_all(q, str(k))
        held.append(((h, q), (frame_view(h), frame_view(q))))
        del held[:-8]
    out.append(digest.hexdigest())
    return out


def ev_encode_input_kept(p, keep):
    t = {'b': [1, {'x': bytearray(b'\x01')}], 'a': A.D('1.5')}
    before = c(t)
    d1 = p.encode.field_table(t)
    d2 = p.encode.field_table(t)
    return [d1.hex(), d1 == d2, c(t) == before]


def _qd(p):
    return p.commands.Queue.Declare(queue='q', durable=True,
                                    arguments={'a': [40000, {'b': 70000}],
                                               'n': -1})


_NY = []


def ev_fold(p, fold):
    """The two folds of one wall-clock time are == and hash alike but are
    instants an hour apart: through every timestamp path."""
    import datetime
    import zoneinfo
    if not _NY:
        _NY.append(zoneinfo.ZoneInfo('America/New_York'))
    v = datetime.datetime(2021, 11, 7, 1, 30, tzinfo=_NY[0], fold=fold)
    return [p.encode.timestamp(v).hex(),
            p.encode.field_table({'t': v}).hex(),
            p.frame.marshal(p.header.ContentHeader(
                0, 1, p.commands.Basic.Properties(timestamp=v)), 1).hex(),
            p.frame.marshal(p.commands.Queue.Declare(
                queue='q', arguments={'t': [v]}), 1).hex()]


_ENV_LOGGING = []


def ev_env_logging(on):
    """Process environment: the application switches debug logging on (root
    and pamqp loggers at DEBUG, a handler that formats every record) / off."""
    def ev(p, keep):
        from mc import lib
        while _ENV_LOGGING:
            _ENV_LOGGING.pop().__exit__(None, None, None)
        if on:
            cm = lib.debug_logging()
            cm.__enter__()
            _ENV_LOGGING.append(cm)
        return 'logging ' + ('debug' if on else 'default')
    return ev


_ENV_WARNINGS = []


def ev_env_warnings(strict):
    """Process environment: warnings raised as errors (-W error) / default."""
    def ev(p, keep):
        from mc import lib
        while _ENV_WARNINGS:
            _ENV_WARNINGS.pop().__exit__(None, None, None)
        if strict:
            cm = lib.warnings_as_errors()
            cm.__enter__()
            _ENV_WARNINGS.append(cm)
        return 'warnings ' + ('raised as errors' if strict else 'default')
    return ev


BUF_RECOVER_ASYNC = refcodec.enc_method_frame(
    M['Basic.RecoverAsync'], (True,), 4)[0]
BUF_RECOVER = refcodec.enc_method_frame(M['Basic.Recover'], (True,), 4)[0]


def env_reset():
    while _ENV_WARNINGS:
        _ENV_WARNINGS.pop().__exit__(None, None, None)
    while _ENV_LOGGING:
        _ENV_LOGGING.pop().__exit__(None, None, None)


def ev_short_prefixes(p, keep):
    """Buffers shorter than, equal to and just longer than a frame header."""
    out = []
    for buf in (BUF_QD, BUF_HDR, BUF_BODY, BUF_HB, BUF_PH):
        for n in range(0, 10):
            out.append(decode(p, buf[:n])[1])
    return out


_KEPT = {}


def reset_kept():
    _KEPT.clear()
    del _APP_CLASSES[:]


def _poison_specs():
    import datetime
    import decimal
    return [decimal.Decimal('NaN'), 2 ** 64, '\ud800',
            datetime.datetime(1969, 1, 1, tzinfo=datetime.timezone.utc)]


def _clean_objects(p):
    out = []
    for i in range(4):
        t = {'a': [1, {'in': 'x'}], 'd': {'n': [i]}, 'k': 'v'}
        out.append((p.commands.Queue.Declare(queue='q%d' % i, arguments=t),
                    t))
        t2 = {'a': [1, {'in': 'x'}], 'd': {'n': [i]}, 'k': 'v'}
        out.append((p.header.ContentHeader(0, i, p.commands.Basic.Properties(
            app_id='a', headers=t2)), t2))
    return out


def ev_poisoned_marshal(p, keep):
    """Objects whose nested tables hold one leaf that cannot be encoded (four
    kinds of failure): the encodes are refused; the objects are kept for the
    'repair' event."""
    objs = _clean_objects(p)
    out = []
    for k, (o, t) in enumerate(objs):
        bad = _poison_specs()[k % 4]
        (t['a'][1] if k % 2 else t['d'])['zz-bad'] = bad
        try:
            p.frame.marshal(o, 1)
            out.append('accepted')
        except Exception as exc:  # noqa
            out.append(type(exc).__name__)
    _KEPT['poisoned'] = objs
    return out


def ev_repair_and_marshal(p, keep):
    """The kept objects (or, when the history has none, identical objects
    that never failed) are repaired IN PLACE and encoded: a refused encode
    must not leave anything behind that concerns the same objects later."""
    objs = _KEPT.pop('poisoned', None) or _clean_objects(p)
    out = []
    for k, (o, t) in enumerate(objs):
        (t['a'][1] if k % 2 else t['d']).pop('zz-bad', None)
        try:
            out.append(p.frame.marshal(o, 1).hex())
        except Exception as exc:  # noqa
            out.append(['raised', type(exc).__name__, str(exc)[:80]])
    return out


def ev_mid_failures(p, keep):
    """Encodes refused and decodes failing in the middle of a (nested)
    container, after earlier members were handled."""
    from mc import corpus
    corpus.disturb_mid()
    return 'done'


_APP_CLASSES = []


def ev_define_application_classes(p, keep):
    """The application defines subclasses of concrete method classes (one
    whose constructor needs an argument), of Basic.Properties and of a
    reply-code exception; nothing is registered anywhere."""
    class Publish(p.commands.Basic.Publish):
        def __init__(self, routing_key, body_hint=None):
            super().__init__(exchange='app', routing_key=routing_key)

    class Declare(p.commands.Queue.Declare):
        pass

    class Props(p.commands.Basic.Properties):
        pass

    class NotFound(p.exceptions.AMQPNotFound):
        pass
    _APP_CLASSES.append((Publish, Declare, Props, NotFound))
    return [p.frame.marshal(Publish('rk'), 1).hex(),
            p.frame.marshal(Declare(queue='app'), 1).hex()]


def ev_unknown_method_ids(p, keep):
    out = []
    for ids in (b'\x00\x3c\x00\x29', b'\x00\x63\x00\x0a', b'\x03\x84\x00'
                b'\x01', b'\xff\xff\xff\xff'):
        payload = ids + b'\x00' * 6
        out.append(decode(p, b'\x01\x00\x01' + len(payload).to_bytes(
            4, 'big') + payload + b'\xce')[1])
    return out


def ev_copies(p, keep):
    """copy.deepcopy and a pickle round trip of frames whose tables are
    dict / list subclasses: the copies are handed to the aliasing oracle
    (a deep copy shares nothing mutable with its original) and changed in
    place, which must leave the original's encoding alone."""
    import collections
    import copy
    import pickle

    class Headers(dict):
        pass

    class Items(list):
        pass

    def table():
        return collections.OrderedDict([
            ('z', 1), ('a', collections.defaultdict(list, {'l': Items([1])})),
            ('h', Headers(k=bytearray(b'v')))])
    out = []
    for build in (
            lambda: p.commands.Queue.Declare(queue='q', arguments=table()),
            lambda: p.header.ContentHeader(0, 3, p.commands.Basic.Properties(
                app_id='a', headers=table())),
            lambda: p.commands.Queue.Declare(
                queue='q', arguments={'plain': {'n': [1]}, 'o': table()})):
        o = build()
        keep(o)
        before = p.frame.marshal(o, 1).hex()
        for how in ('deepcopy', 'pickle'):
            try:
                c = copy.deepcopy(o) if how == 'deepcopy' else \
                    pickle.loads(pickle.dumps(o, 2))
            except Exception as exc:  # noqa
                out.append([how, 'not supported', type(exc).__name__])
                continue
            if how == 'deepcopy':
                keep(c)
            same = p.frame.marshal(c, 1).hex() == before
            mutate_all(c, how)
            out.append([how, same, p.frame.marshal(o, 1).hex() == before])
    return out


def ev_bare_base_classes(p, keep):
    """The mapping / codec interface used on the bare base classes and on an
    application subclass (first-use side effects on shared class state)."""
    out = []
    for name in ('Frame', 'BasicProperties'):
        cls = getattr(p.base, name, None)
        if cls is None:
            continue
        try:
            o = cls()
            out.append([name, len(o), sorted(dict(o)), 'x' in o,
                        list(cls.attributes()), o.marshal().hex()])
        except Exception as exc:  # noqa
            out.append([name, 'raised', type(exc).__name__])

    class AppDeclare(p.commands.Queue.Declare):
        pass
    o = AppDeclare(queue='app')
    out.append([len(o), list(dict(o)), p.frame.marshal(o, 1).hex()])
    return out


EVENTS = [
    ('construct Queue.Declare', ev_construct('commands.Queue.Declare')),
    ('construct Exchange.Declare', ev_construct('commands.Exchange.Declare')),
    ('construct Basic.Consume', ev_construct('commands.Basic.Consume')),
    ('construct Connection.Start', ev_construct('commands.Connection.Start')),
    ('construct ContentHeader', ev_construct('header.ContentHeader')),
    ('construct Basic.Properties',
     ev_construct('commands.Basic.Properties')),
    ('marshal Queue.Declare', ev_marshal(_qd, 3)),
    ('marshal Basic.Publish', ev_marshal(
        lambda p: p.commands.Basic.Publish(exchange='ex', routing_key='rk',
                                           mandatory=True), 2)),
    ('marshal ContentHeader', ev_marshal(
        lambda p: p.header.ContentHeader(0, 10, p.commands.Basic.Properties(
            content_type='text/plain', headers={'h': [1, 2], 'x': 'y'},
            delivery_mode=2, timestamp=A.dt(1600000000))), 5)),
    ('marshal ContentBody', ev_marshal(
        lambda p: p.body.ContentBody(b'payload\xce'), 5)),
    ('marshal Heartbeat', ev_marshal(lambda p: p.heartbeat.Heartbeat(), 0)),
    ('unmarshal Queue.Declare', ev_unmarshal(BUF_QD)),
    ('unmarshal Queue.Declare other', ev_unmarshal(BUF_QD2)),
    ('unmarshal Basic.Publish', ev_unmarshal(BUF_PUB)),
    ('unmarshal ContentHeader', ev_unmarshal(BUF_HDR)),
    ('unmarshal ContentBody', ev_unmarshal(BUF_BODY)),
    ('unmarshal Heartbeat', ev_unmarshal(BUF_HB)),
    ('unmarshal ProtocolHeader', ev_unmarshal(BUF_PH)),
    ('unmarshal truncated', ev_unmarshal(BAD_TRUNC)),
    ('unmarshal bad utf-8', ev_unmarshal(BAD_UTF8)),
    ('unmarshal unknown tag', ev_unmarshal(BAD_TAG)),
    ('unmarshal over-long array', ev_unmarshal(BAD_ARRAY)),
    ('unmarshal continuation flags', ev_unmarshal(ODD_FLAGS)),
    ('unmarshal header failing inside its properties',
     ev_unmarshal(BAD_HEADER)),
    ('construct bad exchange name', ev_bad_construct_name),
    ('construct bad delivery mode', ev_bad_construct_mode),
    ('toggle ()', ev_toggle('()')),
    ('toggle (True)', ev_toggle(True)),
    ('toggle (False)', ev_toggle(False)),
    ('encode flag-sensitive table', ev_flag_encode),
    # the caller's thread-local decimal context is environment, not an
    # argument: results must not depend on it
    ('env: decimal context prec=6', ev_env_decimal(6)),
    ('env: decimal context traps Rounded', ev_env_decimal('traps')),
    ('env: decimal context default', ev_env_decimal(None)),
    ('env: debug logging on', ev_env_logging(True)),
    ('env: debug logging off', ev_env_logging(False)),
    ('unmarshal prefixes of 0..9 bytes', ev_short_prefixes),
    ('env: warnings raised as errors', ev_env_warnings(True)),
    ('env: warnings default', ev_env_warnings(False)),
    ('unmarshal Basic.RecoverAsync (deprecated method)',
     ev_unmarshal(BUF_RECOVER_ASYNC)),
    ('unmarshal Basic.Recover', ev_unmarshal(BUF_RECOVER)),
    ('encode Decimal 21474836.47', lambda p, keep: p.encode.field_table(
        {'d': [A.D('21474836.47'), A.D('-1234567.89'), A.D('1E-28')]}).hex()),
    ('decode Decimal 21474836.47', lambda p, keep: c(p.decode.field_array(
        bytes.fromhex('0000000c44027fffffff4402f8a432eb')))),
    # encodes that are refused part-way through
    ('marshal refused mid-way', ev_marshal_refused),
    ('marshal invalid after setattr', ev_marshal_invalid),
    ('refused / failed mid-container operations', ev_mid_failures),
    ('marshal objects with one unencodable nested leaf (kept)',
     ev_poisoned_marshal),
    ('repair the kept objects in place and marshal', ev_repair_and_marshal),
    ('bare base classes and an application subclass', ev_bare_base_classes),
    ('deep copies and pickles of frames with table subclasses', ev_copies),
    ('define application subclasses of method classes',
     ev_define_application_classes),
    ('unmarshal frames with unknown class / method ids',
     ev_unknown_method_ids),
    # equal-but-distinct arguments (a memoised encoder conflates them)
    ('encode Decimal 1.0', lambda p, keep: p.encode.field_table(
        {'d': [A.D('1.0'), A.D('0')]}).hex()),
    ('encode Decimal 1.00', lambda p, keep: p.encode.field_table(
        {'d': [A.D('1.00'), A.D('0.00')]}).hex()),
    ('encode int 1', lambda p, keep: p.encode.field_array([1, 0]).hex()),
    ('encode bool True', lambda p, keep: p.encode.field_array(
        [True, False]).hex()),
    ('encode float 1.0', lambda p, keep: p.encode.field_array(
        [1.0, 0.0, -0.0]).hex()),
    ('encode wall time fold 0', lambda p, keep: ev_fold(p, 0)),
    ('encode wall time fold 1', lambda p, keep: ev_fold(p, 1)),
    ('mutate default arguments', ev_mutate_default_arguments),
    ('mutate decoded arguments', ev_mutate_decoded_arguments),
    ('mutate decoded properties', ev_mutate_decoded_properties),
    ('mutate default properties', ev_mutate_default_properties),
    ('mutate Start properties', ev_mutate_start_properties),
    ('mutate decoded array', ev_mutate_decoded_array),
    ('decode twice identities', ev_twice_identity),
    ('encode keeps its input', ev_encode_input_kept),
    ('decode 130 times, mutating each result', ev_repeat_decode_mutate),
    ('keep parts of decoded frames, drop the frames, decode on',
     ev_keep_parts_drop_wholes),
    ('decode from deep inside the call stack', ev_decode_deep_in_the_stack),
    ('decode under a lowered recursion limit',
     ev_decode_under_low_recursion_limit),
    ('unmarshal 270 frames nested 700 deep', ev_many_over_deep_frames),
    ('unmarshal tables nested 32 deep', lambda p, keep: [
        decode(p, BUF_DEEP32)[1], decode(p, BUF_QD_DEEP32)[1]]),
]
TOGGLES = {'toggle ()': True, 'toggle (True)': True, 'toggle (False)': False}


def mutable_ids(obj, out=None, depth=0):
    """ids of the mutable members reachable from a returned frame object:
    argument tables / arrays, header dicts, property objects."""
    out = set() if out is None else out
    if depth > 8 or obj is None:
        return out
    if isinstance(obj, (dict, list, bytearray)):
        out.add(id(obj))
        if isinstance(obj, dict):
            for v in obj.values():
                mutable_ids(v, out, depth + 1)
        elif isinstance(obj, list):
            for v in obj:
                mutable_ids(v, out, depth + 1)
        return out
    props = getattr(obj, 'properties', None)
    if props is not None and not isinstance(props, (str, int)):
        out.add(id(props))
        mutable_ids_frame(props, out, depth + 1)
    mutable_ids_frame(obj, out, depth + 1)
    return out


def mutable_ids_frame(obj, out, depth):
    attrs = getattr(type(obj), 'attributes', None)
    if attrs is None:
        return
    try:
        names = list(type(obj).attributes())
    except Exception:  # noqa
        return
    for n in names:
        v = getattr(obj, n, None)
        if isinstance(v, (dict, list, bytearray)):
            mutable_ids(v, out, depth + 1)
