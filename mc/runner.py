"""Shared run machinery: per-task context, parallel map, merge, evidence."""
import array
import collections
import contextlib
import json
import multiprocessing
import os
import signal
import subprocess
import sys
import time
import traceback

VERIF = os.path.dirname(os.path.dirname(os.path.abspath(__file__)))
REPO = os.environ.get('PAMQP_REPO', '/repo')
MAX_VIOL_PER_TASK = 6
MAX_VIOL_PRINTED = 12


class Hang(BaseException):
    """A guarded call did not finish within its guard."""


_BEAT = None     # shared doubles: when this worker last showed a sign of life
                 # (wall clock, CPU clock of the worker)


def _beat():
    if _BEAT is not None:
        _BEAT[0] = time.time()
        _BEAT[1] = time.process_time()


_TICK = os.sysconf('SC_CLK_TCK') if hasattr(os, 'sysconf') else 100


def _cpu_of(pid):
    """CPU seconds (user + system) a process has used so far."""
    try:
        with open('/proc/%d/stat' % pid) as fh:
            fields = fh.read().rsplit(')', 1)[1].split()
        return (int(fields[11]) + int(fields[12])) / _TICK
    except (OSError, IndexError, ValueError):
        return None


def _arm(seconds):
    """Arm both timers of the hang guard.  The tight one counts *CPU time of
    this process* (ITIMER_PROF): a non-terminating pure-Python call burns CPU,
    and a CPU clock does not fire merely because the machine is loaded or the
    process was descheduled.  A generous wall-clock backstop (ITIMER_REAL)
    catches a call that blocks without using CPU."""
    _beat()
    signal.setitimer(signal.ITIMER_PROF, seconds)
    signal.setitimer(signal.ITIMER_REAL,
                     0 if not seconds else max(120, 20 * seconds))


def _install(handler):
    return (signal.signal(signal.SIGALRM, handler),
            signal.signal(signal.SIGPROF, handler))


def _restore(old):
    signal.signal(signal.SIGALRM, old[0])
    signal.signal(signal.SIGPROF, old[1])


@contextlib.contextmanager
def guard(seconds=20):
    """Wall-clock guard so that a non-terminating call cannot hang a check.

    Not an oracle: a guarded call that trips is reported as 'hang' by the
    caller; the termination property itself is decided by C08's step budget.
    """
    def handler(_sig, _frm):
        raise Hang()
    old = _install(handler)
    _arm(seconds)
    try:
        yield
    finally:
        _arm(0)
        _restore(old)


class Watch:
    """Cheap hang watchdog for loops of many short calls: one SIGALRM handler
    for the whole loop, the timer re-armed every 256 ticks.  A call that does
    not return trips the timer within `seconds` and gets Hang raised in it."""

    def __init__(self, seconds=4):
        self.seconds = seconds
        self.n = 0
        self.old = _install(self._handler)
        _arm(seconds)

    @staticmethod
    def _handler(_sig, _frm):
        raise Hang()

    def tick(self):
        self.n += 1
        if not self.n & 255:
            _arm(self.seconds)

    def rearm(self):
        _arm(self.seconds)

    def close(self):
        _arm(0)
        _restore(self.old)


class Ctx:
    """Collects what one task explored.  Picklable via .export()."""

    def __init__(self, prop_id, tier, seed):
        self.prop_id, self.tier, self.seed = prop_id, tier, seed
        self.evaluations = 0
        self.transitions = 0
        self.validated = 0
        self.states = set()
        self.nontrivial = set()
        self.outcomes = collections.Counter()
        self.counters = collections.Counter()
        self.maxima = {}
        self.violations = []
        self.nviolations = 0
        self.fingerprints = set()
        self.samples = []
        self._sample_every = 1
        self.caps = []
        self.watchdog = 0

    # -- exploration bookkeeping
    def case(self, key, nontrivial=True, sample=None):
        """Register one explored case. key: hashable canonical form."""
        self.evaluations += 1
        if not self.evaluations & 63 and self.watchdog:
            _arm(self.watchdog)
        h = hash(key)
        self.states.add(h)
        if nontrivial:
            self.nontrivial.add(h)
        if sample is not None:
            n = self.evaluations
            if n == 1 or n % self._sample_every == 0:
                self.samples.append(sample() if callable(sample) else sample)
                if len(self.samples) > 16:
                    self.samples = self.samples[::2]
                    self._sample_every *= 2

    def rearm(self, seconds=None):
        """(Re)start the watchdog, optionally with a new period."""
        if seconds is not None:
            self.watchdog = seconds if self.watchdog else 0
        if self.watchdog:
            _arm(self.watchdog)

    def calls(self, n=1):
        self.transitions += n

    def valid(self, n=1):
        self.validated += n

    def outcome(self, label):
        self.outcomes[label] += 1

    def count(self, name, n=1):
        self.counters[name] += n

    def peak(self, name, value):
        if value > self.maxima.get(name, value - 1):
            self.maxima[name] = value

    def cap(self, text):
        if text not in self.caps:
            self.caps.append(text)

    def violation(self, fingerprint, message, case, expected=None,
                  observed=None):
        """fingerprint: stable string naming the exact failing input."""
        self.nviolations += 1
        if fingerprint in self.fingerprints:
            return
        self.fingerprints.add(fingerprint)
        if len(self.violations) < MAX_VIOL_PER_TASK:
            self.violations.append({
                'fingerprint': fingerprint, 'message': message, 'case': case,
                'expected': expected, 'observed': observed})

    def export(self):
        return {
            'evaluations': self.evaluations, 'transitions': self.transitions,
            'validated': self.validated,
            'states': array.array('q', self.states).tobytes(),
            'nontrivial': array.array('q', self.nontrivial).tobytes(),
            'outcomes': dict(self.outcomes), 'counters': dict(self.counters),
            'maxima': dict(self.maxima),
            'violations': self.violations, 'nviolations': self.nviolations,
            'samples': self.samples, 'caps': self.caps,
        }


class Merged:
    def __init__(self):
        self.evaluations = self.transitions = self.validated = 0
        self.state_chunks, self.nontrivial_chunks = [], []
        self.outcomes = collections.Counter()
        self.counters = collections.Counter()
        self.maxima = {}
        self.violations, self.nviolations = [], 0
        self.samples, self.caps = [], []
        self.tasks = 0
        self.errors = []

    def add(self, exp):
        self.tasks += 1
        self.evaluations += exp['evaluations']
        self.transitions += exp['transitions']
        self.validated += exp['validated']
        self.state_chunks.append(exp['states'])
        self.nontrivial_chunks.append(exp['nontrivial'])
        self.outcomes.update(exp['outcomes'])
        self.counters.update(exp['counters'])
        for k, v in exp['maxima'].items():
            if v > self.maxima.get(k, v - 1):
                self.maxima[k] = v
        self.violations.extend(exp['violations'])
        self.nviolations += exp['nviolations']
        if exp['samples']:
            self.samples.append(exp['samples'])
        for c in exp['caps']:
            if c not in self.caps:
                self.caps.append(c)

    @staticmethod
    def _distinct(chunks):
        total = sum(len(c) for c in chunks) // 8
        if total <= 6_000_000:
            seen = set()
            for c in chunks:
                a = array.array('q')
                a.frombytes(c)
                seen.update(a)
            return len(seen)
        # large: count with numpy in the tooling venv (exact); fall back to a
        # sort in this interpreter
        cache = os.path.join(VERIF, '.cache')
        os.makedirs(cache, exist_ok=True)
        path = os.path.join(cache, 'hashes-%d.bin' % os.getpid())
        try:
            with open(path, 'wb') as fh:
                for c in chunks:
                    fh.write(c)
            try:
                out = subprocess.run(
                    ['python3-vt', '-c',
                     'import numpy,sys;a=numpy.fromfile(sys.argv[1],'
                     'dtype=numpy.int64);a.sort();'
                     'print(int((a[1:]!=a[:-1]).sum())+1 if len(a) else 0)',
                     path],
                    capture_output=True, text=True, timeout=600)
                if out.returncode == 0:
                    return int(out.stdout.strip())
            except (OSError, subprocess.SubprocessError, ValueError):
                pass
            a = array.array('q')
            for c in chunks:
                a.frombytes(c)
            prev, n = None, 0
            for h in sorted(a):
                if h != prev:
                    n += 1
                    prev = h
            return n
        finally:
            with contextlib.suppress(OSError):
                os.unlink(path)

    def distinct_states(self):
        return self._distinct(self.state_chunks)

    def distinct_nontrivial(self):
        return self._distinct(self.nontrivial_chunks)

    def pick_samples(self, k=5):
        flat = [s for group in self.samples for s in group]
        if len(flat) <= k:
            return flat
        idx = sorted({round(i * (len(flat) - 1) / (k - 1)) for i in range(k)})
        return [flat[i] for i in idx]


_WORK = {}


def _run_one(indexed_task):
    idx, task = indexed_task
    mod, tier, seed = _WORK['mod'], _WORK['tier'], _WORK['seed']
    ctx = Ctx(mod.ID, tier, seed)
    t0 = time.time()
    # watchdog: a case that does not return trips SIGALRM; re-armed by
    # ctx.case() every 64 cases
    ctx.watchdog = getattr(mod, 'WATCHDOG', 90)

    def on_alarm(_sig, _frm):
        raise Hang()
    old_handler = _install(on_alarm)
    _arm(ctx.watchdog)
    try:
        mod.run(task, ctx)
        err = None
    except Hang:
        err = None
        last = ctx.samples[-1] if ctx.samples else None
        ctx.cap('task %r abandoned: a call did not return within %d s' %
                (task, ctx.watchdog))
        ctx.violation('hang|%r' % (task,),
                      'task {!r}: a library call did not return within {} s '
                      '(after {} cases; last recorded case {})'.format(
                          task, ctx.watchdog, ctx.evaluations, last),
                      {'kind': 'hang', 'task': repr(task)}, 'termination',
                      'no result within %d s' % ctx.watchdog)
    except MemoryError:
        # the worker ran into its address-space limit: the library (under
        # test in this very process) holds on to what it decoded - or
        # allocates without bound.  A verdict, not an engine error.
        err = None
        ctx.states, ctx.nontrivial, ctx.samples = set(), set(), []
        _release_library_memory()
        ctx.cap('task %r abandoned: the worker process exceeded its memory '
                'limit' % (task,))
        ctx.violation('memory|worker|%r' % (task,),
                      'task {!r}: the worker process ran out of memory (limit '
                      '{} MiB) after {} cases: the library keeps or allocates '
                      'memory without bound'.format(
                          task, _memory_limit() >> 20, ctx.evaluations),
                      {'kind': 'memory', 'task': repr(task)},
                      'bounded memory', 'MemoryError')
    except BaseException:  # an engine error is a broken check, not a verdict
        err = 'task {!r}: {}'.format(task, traceback.format_exc())
    finally:
        _arm(0)
        _restore(old_handler)
        ctx.watchdog = 0
    try:
        out = ctx.export()
    except MemoryError:
        ctx.states, ctx.nontrivial, ctx.samples = set(), set(), []
        _release_library_memory()
        ctx.violation('memory|worker-export|%r' % (task,),
                      'task {!r}: the worker process ran out of memory '
                      '(limit {} MiB): the library keeps or allocates memory '
                      'without bound'.format(task, _memory_limit() >> 20),
                      {'kind': 'memory', 'task': repr(task)},
                      'bounded memory', 'MemoryError')
        out = ctx.export()
    out['index'] = idx
    out['task'] = repr(task)[:80]
    out['wall'] = time.time() - t0
    out['error'] = err
    return out


def _memory_limit():
    return int(os.environ.get('VERIF_WORKER_MEM', 6 << 30))


def _release_library_memory():
    """Drop the pamqp modules (and whatever they hold on to) so that this
    worker can report and go on."""
    import gc
    try:
        from mc import libstate
        libstate.fresh_import()
    except Exception:  # noqa
        pass
    gc.collect()


def _limit_memory():
    """A runaway allocation in a worker becomes MemoryError, not an OOM."""
    try:
        import resource
        limit = int(os.environ.get('VERIF_WORKER_MEM', 6 << 30))
        resource.setrlimit(resource.RLIMIT_AS, (limit, limit))
    except (ImportError, ValueError, OSError):
        pass


def _worker_main(conn, beat):
    global _BEAT
    _BEAT = beat
    _limit_memory()
    while True:
        try:
            item = conn.recv()
        except (EOFError, OSError):
            return
        if item is None:
            return
        _beat()
        conn.send(_run_one(item))


def _lost(mod, tier, seed, item, fingerprint, message, observed):
    """The result of a task whose worker process did not survive it: the
    library runs inside that process, so a call that never gives control back
    to the interpreter (a loop inside C code) or takes the process down is a
    verdict about the library, not an engine error."""
    idx, task = item
    ctx = Ctx(mod.ID, tier, seed)
    ctx.cap('task %r abandoned: %s' % (task, observed))
    ctx.violation('%s|%r' % (fingerprint, task),
                  'task {!r}: {}'.format(task, message),
                  {'kind': 'hang', 'task': repr(task)}, 'termination',
                  observed)
    out = ctx.export()
    out.update(index=idx, task=repr(task)[:80], wall=0.0, error=None)
    return out


def _dispatch(mod, indexed, nworkers):
    """A process pool that survives its workers: every worker has its own
    pipe and a heartbeat (refreshed whenever the in-process watchdog is
    re-armed, i.e. at least every 64 cases). A worker that dies, or that shows
    no sign of life for `hard` seconds although its own watchdog should have
    fired (the call never returns to the interpreter), is killed and replaced;
    its task is reported as a violation and the other tasks go on."""
    from multiprocessing import connection
    ctxm = multiprocessing.get_context('fork')
    tier, seed = _WORK['tier'], _WORK['seed']
    watchdog = getattr(mod, 'WATCHDOG', 90)
    # the in-process watchdog fires after `watchdog` CPU seconds (or
    # max(120, 20 x) wall seconds) without a re-arm; past that plus a margin
    # the signal evidently cannot be delivered
    hard_cpu = 2 * watchdog + 30
    hard_wall = max(120, 20 * watchdog) + 120
    queue = list(reversed(indexed))
    results, live = [], {}

    def spawn():
        parent, child = ctxm.Pipe()
        beat = ctxm.Array('d', [time.time(), 0.0], lock=False)
        proc = ctxm.Process(target=_worker_main, args=(child, beat),
                            daemon=True)
        proc.start()
        child.close()
        live[parent] = {'proc': proc, 'beat': beat, 'item': None}
        return parent

    def feed(conn):
        slot = live[conn]
        if queue:
            slot['item'] = queue.pop()
            slot['beat'][0] = time.time()
            conn.send(slot['item'])
        else:
            slot['item'] = None
            with contextlib.suppress(OSError):
                conn.send(None)
            conn.close()
            slot['proc'].join(5)
            del live[conn]

    def bury(conn, fingerprint, message, observed):
        slot = live.pop(conn)
        proc = slot['proc']
        if proc.is_alive():
            proc.kill()
        proc.join(10)
        with contextlib.suppress(OSError):
            conn.close()
        if slot['item'] is not None:
            results.append(_lost(mod, tier, seed, slot['item'], fingerprint,
                                 message, observed))
        if queue:
            feed(spawn())

    for _ in range(nworkers):
        feed(spawn())
    while live:
        ready = connection.wait(list(live), timeout=5)
        for conn in ready:
            slot = live.get(conn)
            if slot is None:
                continue
            try:
                res = conn.recv()
            except (EOFError, OSError):
                slot['proc'].join(10)
                code = slot['proc'].exitcode
                bury(conn, 'died', 'the worker process died (exit code {}) '
                     'while running it: the library took the interpreter '
                     'down or was killed for the memory it '
                     'used'.format(code), 'worker exit code %r' % (code,))
                continue
            results.append(res)
            feed(conn)
        now = time.time()
        for conn in list(live):
            slot = live[conn]
            if slot['item'] is None:
                continue
            cpu = _cpu_of(slot['proc'].pid)
            spent = None if cpu is None else cpu - slot['beat'][1]
            if spent is not None and spent > hard_cpu:
                bury(conn, 'hang', 'a library call did not give control back '
                     'to the interpreter within {:.0f} s of CPU time (the '
                     'watchdog signal cannot be delivered: the time is spent '
                     'inside a single C-level call)'.format(spent),
                     'no sign of life for %d CPU s' % hard_cpu)
            elif now - slot['beat'][0] > hard_wall:
                bury(conn, 'hang', 'a library call neither returned nor '
                     'reacted to the watchdog for {} s'.format(hard_wall),
                     'no sign of life for %d s' % hard_wall)
    return results


def run_tasks(mod, tasks, tier, seed, workers=None):
    """Run mod.run(task, ctx) for every task on a pool; deterministic merge."""
    _WORK.update(mod=mod, tier=tier, seed=seed)
    workers = workers or int(os.environ.get('VERIF_WORKERS', 0)) or \
        min(16, os.cpu_count() or 1)
    indexed = list(enumerate(tasks))
    cost = getattr(mod, 'task_cost', None)
    if cost:
        # longest tasks first (dispatch order only: results are merged by
        # task index, so the outcome does not depend on it)
        indexed.sort(key=lambda it: -cost(it[1]))
    results = []
    if workers <= 1 or len(indexed) <= 1:
        results = [_run_one(t) for t in indexed]
    else:
        results = _dispatch(mod, indexed, min(workers, len(indexed)))
    results.sort(key=lambda r: r['index'])
    merged = Merged()
    merged.slowest = sorted(((round(r['wall'], 2), r['task'])
                             for r in results), reverse=True)[:5]
    for res in results:
        merged.add(res)
        if res['error']:
            merged.errors.append(res['error'])
    return merged


def write_json(path, obj):
    tmp = path + '.tmp'
    with open(tmp, 'w') as fh:
        json.dump(obj, fh, indent=1, sort_keys=True, default=repr)
        fh.write('\n')
    os.replace(tmp, path)
